// Package zz_verifsym is the harness API ("vs").
//
// Under the symbolic engine (gosym) every function here is an intrinsic: the
// engine intercepts the call and never runs these bodies.  Compiled natively
// (replay of a solver model against the real build) the nondet functions read
// the recorded values from the replay file, Assert panics with its id and
// Assume aborts the replay as "not a counterexample".
package zz_verifsym

import (
	"encoding/json"
	"fmt"
	"os"
	"path/filepath"
	"runtime/debug"
	"sort"
	"strconv"
	"strings"
	"testing"
	"unsafe"
)

type nd struct {
	N string `json:"n"`
	W int    `json:"w"`
	V string `json:"v"`
}

// Replay is the on-disk format of one solver model.
type Replay struct {
	Property string            `json:"property"`
	Harness  string            `json:"harness"`
	Package  string            `json:"package"`
	Tier     int               `json:"tier"`
	Expect   string            `json:"expect"` // "assert:<id>", "panic", "ok"
	Detail   string            `json:"detail,omitempty"`
	Known    string            `json:"known,omitempty"`
	Values   []nd              `json:"values"`
	Tags     map[string]string `json:"tags,omitempty"`
}

type AssertFailure struct{ ID string }
type AssumeFailed struct{}
type Diverged struct{ Msg string }

var cur struct {
	r   *Replay
	pos int
}

func next(name string, w int) uint64 {
	if cur.r == nil {
		panic(Diverged{"nondet " + name + " requested outside a replay"})
	}
	if cur.pos >= len(cur.r.Values) {
		panic(Diverged{fmt.Sprintf("nondet %s requested but the replay has only %d values", name, len(cur.r.Values))})
	}
	v := cur.r.Values[cur.pos]
	if v.N != name || v.W != w {
		panic(Diverged{fmt.Sprintf("nondet #%d: replay has %s/%d, harness asked %s/%d", cur.pos, v.N, v.W, name, w)})
	}
	cur.pos++
	u, err := strconv.ParseUint(v.V, 10, 64)
	if err != nil {
		panic(Diverged{"bad value " + v.V})
	}
	return u
}

func Bool(name string) bool     { return next(name, 0) != 0 }
func Int(name string) int       { return int(next(name, 64)) }
func Int8(name string) int8     { return int8(next(name, 8)) }
func Int16(name string) int16   { return int16(next(name, 16)) }
func Int32(name string) int32   { return int32(next(name, 32)) }
func Int64(name string) int64   { return int64(next(name, 64)) }
func Uint(name string) uint     { return uint(next(name, 64)) }
func Uint8(name string) uint8   { return uint8(next(name, 8)) }
func Byte(name string) byte     { return uint8(next(name, 8)) }
func Uint16(name string) uint16 { return uint16(next(name, 16)) }
func Uint32(name string) uint32 { return uint32(next(name, 32)) }
func Uint64(name string) uint64 { return next(name, 64) }

// IntRange returns an int in [lo,hi]; the engine enumerates the values (one
// path per value), so the result is concrete on every path.
func IntRange(name string, lo, hi int) int {
	v := int(next(name, 64))
	if v < lo || v > hi {
		panic(AssumeFailed{})
	}
	return v
}

// SymRange returns a symbolic int constrained to [lo,hi] (not enumerated).
func SymRange(name string, lo, hi int) int {
	v := int(next(name, 64))
	if v < lo || v > hi {
		panic(AssumeFailed{})
	}
	return v
}

// Choice returns a concrete index in [0,n), all explored.
func Choice(name string, n int) int { return IntRange(name, 0, n-1) }

// Bytes returns n symbolic bytes (n concrete).
func Bytes(name string, n int) []byte {
	b := make([]byte, n)
	for i := range b {
		b[i] = uint8(next(name+"["+strconv.Itoa(i)+"]", 8))
	}
	return b
}

func String(name string, n int) string { return string(Bytes(name, n)) }

func Assume(c bool) {
	if !c {
		panic(AssumeFailed{})
	}
}

func Assert(c bool, id string) {
	if !c {
		panic(AssertFailure{id})
	}
}

func Fail(id string) { panic(AssertFailure{id}) }

func Cover(id string) {}

func TagI(name string, v int64)  {}
func TagU(name string, v uint64) {}
func TagB(name string, v bool)   {}
func Note(msg string)            {}

// Concrete forces the engine to enumerate the values of x.
func Concrete(x int) int { return x }

// Tier is 0 for quick, 1 for thorough.
func Tier() int {
	if cur.r != nil {
		return cur.r.Tier
	}
	return 0
}

func Pick(quick, thorough int) int {
	if Tier() >= 1 {
		return thorough
	}
	return quick
}

// IsSubslice reports whether sub lies within whole's elements (same backing array).
func IsSubslice(sub, whole []byte) bool {
	if len(sub) == 0 {
		return true
	}
	if len(whole) == 0 {
		return false
	}
	s0 := uintptr(unsafe.Pointer(&sub[0]))
	w0 := uintptr(unsafe.Pointer(&whole[0]))
	return s0 >= w0 && s0+uintptr(len(sub)) <= w0+uintptr(len(whole))
}

// Fork returns c; under the engine the path forks on c (never merged into an
// ite), so the result is concrete on each path.
func Fork(c bool) bool { return c }

// Ite* select a value without forking the path.
func IteI64(c bool, a, b int64) int64 {
	if c {
		return a
	}
	return b
}
func IteInt(c bool, a, b int) int {
	if c {
		return a
	}
	return b
}
func IteU64(c bool, a, b uint64) uint64 {
	if c {
		return a
	}
	return b
}
func IteByte(c bool, a, b byte) byte {
	if c {
		return a
	}
	return b
}
func IteBool(c bool, a, b bool) bool {
	if c {
		return a
	}
	return b
}

// And / Or / Implies: boolean connectives that never fork.
func And(a, b bool) bool     { return a && b }
func Or(a, b bool) bool      { return a || b }
func Implies(a, b bool) bool { return !a || b }

// Symbolic is true under the engine and false natively.
func Symbolic() bool { return false }

// RunReplays runs every replay file of $VERIF_REPLAY_DIR that names one of
// the given harnesses, printing one REPLAY line per file.
func RunReplays(t *testing.T, hs map[string]func()) {
	dir := os.Getenv("VERIF_REPLAY_DIR")
	if dir == "" {
		t.Skip("VERIF_REPLAY_DIR not set")
	}
	files, _ := filepath.Glob(filepath.Join(dir, "*.json"))
	sort.Strings(files)
	for _, f := range files {
		data, err := os.ReadFile(f)
		if err != nil {
			continue
		}
		var r Replay
		if err := json.Unmarshal(data, &r); err != nil {
			fmt.Printf("REPLAY %s error bad-json %v\n", f, err)
			continue
		}
		h, ok := hs[r.Harness]
		if !ok {
			continue
		}
		outcome, detail := runOne(&r, h)
		status := "MISMATCH"
		if outcome == r.Expect || (r.Expect == "panic" && strings.HasPrefix(outcome, "panic")) {
			status = "CONFIRMED"
		}
		fmt.Printf("REPLAY %s %s got=%s want=%s detail=%s\n", f, status, outcome, r.Expect, strconv.Quote(detail))
	}
}

func runOne(r *Replay, h func()) (outcome, detail string) {
	cur.r, cur.pos = r, 0
	defer func() {
		cur.r = nil
		if p := recover(); p != nil {
			switch p := p.(type) {
			case AssertFailure:
				outcome, detail = "assert:"+p.ID, ""
			case AssumeFailed:
				outcome, detail = "assume", ""
			case Diverged:
				outcome, detail = "diverged", p.Msg
			default:
				st := string(debug.Stack())
				if len(st) > 1500 {
					st = st[:1500]
				}
				outcome, detail = "panic", fmt.Sprint(p)+" | "+firstRepoFrame(st)
			}
		}
	}()
	h()
	return "ok", ""
}

func firstRepoFrame(st string) string {
	for _, l := range strings.Split(st, "\n") {
		l = strings.TrimSpace(l)
		if strings.Contains(l, ".go:") && !strings.Contains(l, "zz_verif") && !strings.Contains(l, "/runtime/") {
			return l
		}
	}
	return ""
}
