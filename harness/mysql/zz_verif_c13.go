package mysql

// C13 — prepared-statement results carry the same values as the backend's text results.

import (
	vs "github.com/XiaoMi/Gaea/zz_verifsym"
)

type vhC13Cell struct {
	null bool
	i    int64
	b    []byte
}

// vhC13DecodeRow decodes one binary-protocol row (header 0x00, null bitmap with offset 2,
// values in column order) per the MySQL protocol; ok=false if the row is malformed.
func vhC13DecodeRow(row []byte, types []byte) (cells []vhC13Cell, ok bool) {
	n := len(types)
	bm := (n + 7 + 2) >> 3
	if len(row) < 1+bm || row[0] != 0 {
		return nil, false
	}
	pos := 1 + bm
	for j, tp := range types {
		if row[1+(j+2)/8]&(1<<uint((j+2)%8)) != 0 {
			cells = append(cells, vhC13Cell{null: true})
			continue
		}
		w := 0
		switch tp {
		case TypeTiny:
			w = 1
		case TypeShort:
			w = 2
		case TypeLong:
			w = 4
		case TypeLonglong:
			w = 8
		}
		if w > 0 {
			if pos+w > len(row) {
				return nil, false
			}
			var u uint64
			for k := 0; k < w; k++ {
				u |= uint64(row[pos+k]) << (8 * uint(k))
			}
			sh := uint(64 - 8*w)
			cells = append(cells, vhC13Cell{i: int64(u<<sh) >> sh})
			pos += w
			continue
		}
		// length-encoded string (payloads here are shorter than 251 bytes)
		if pos >= len(row) || row[pos] >= 251 {
			return nil, false
		}
		l := int(row[pos])
		pos++
		if pos+l > len(row) {
			return nil, false
		}
		cells = append(cells, vhC13Cell{b: row[pos : pos+l]})
		pos += l
	}
	return cells, pos == len(row)
}

//verif:harness prop=C13 bounds="result sets of 1..2 rows x 1..2 columns; column types TINY, SHORT, LONG, LONGLONG (signed, value symbolic within the type's range), VARSTRING, BLOB, ENUM, SET (value 0..2 symbolic bytes); every cell NULL or not; decoded with an independent binary-protocol row decoder"
func Harness_C13_BinaryRows() {
	nrows, ncols := vs.IntRange("rows", 1, 2), vs.IntRange("cols", 1, 2)
	kinds := []byte{TypeTiny, TypeShort, TypeLong, TypeLonglong, TypeVarString, TypeBlob, TypeEnum, TypeSet}
	types := make([]byte, ncols)
	fields := make([]*Field, ncols)
	for j := range types {
		types[j] = kinds[vs.Choice("type", len(kinds))]
		fields[j] = &Field{Name: []byte("c"), Type: types[j]}
	}
	want := make([][]vhC13Cell, nrows)
	values := make([][]interface{}, nrows)
	for i := 0; i < nrows; i++ {
		for j := 0; j < ncols; j++ {
			var c vhC13Cell
			var v interface{}
			if vs.Choice("null", 2) == 1 {
				c.null = true
			} else {
				switch types[j] {
				case TypeTiny:
					c.i = int64(vs.Int8("int"))
					v = c.i
				case TypeShort:
					c.i = int64(vs.Int16("int"))
					v = c.i
				case TypeLong:
					c.i = int64(vs.Int32("int"))
					v = c.i
				case TypeLonglong:
					c.i = vs.Int64("int")
					v = c.i
				case TypeEnum, TypeSet:
					c.b = vs.Bytes("str", vs.IntRange("len", 0, 2))
					v = string(c.b)
				default:
					c.b = vs.Bytes("str", vs.IntRange("len", 0, 2))
					v = c.b
				}
			}
			want[i] = append(want[i], c)
			values[i] = append(values[i], v)
		}
	}
	rs, err := BuildBinaryResultset(fields, values)
	if err != nil {
		vs.Cover("C13/error-instead-of-a-row")
		return
	}
	vs.Assert(len(rs.RowDatas) == nrows, "C13/row-count")
	for i := 0; i < nrows && i < len(rs.RowDatas); i++ {
		got, ok := vhC13DecodeRow(rs.RowDatas[i], types)
		vs.Assert(ok, "C13/row-is-well-formed-binary-protocol:"+MysqlTypeName(types[0]))
		if !ok {
			continue
		}
		for j := 0; j < ncols; j++ {
			vs.Assert(got[j].null == want[i][j].null, "C13/null-flags-preserved")
			if want[i][j].null || got[j].null {
				continue
			}
			if want[i][j].b == nil && (types[j] == TypeTiny || types[j] == TypeShort || types[j] == TypeLong || types[j] == TypeLonglong) {
				vs.Assert(got[j].i == want[i][j].i, "C13/integer-value-preserved")
			} else {
				vs.Assert(len(got[j].b) == len(want[i][j].b), "C13/string-value-preserved")
				for k := 0; k < len(got[j].b) && k < len(want[i][j].b); k++ {
					vs.Assert(got[j].b[k] == want[i][j].b[k], "C13/string-value-preserved")
				}
			}
		}
	}
	vs.Cover("C13/done")
}

func vhC13Digits(name string, n int) ([]byte, int) {
	b := vs.Bytes(name, n)
	v := 0
	for i := range b {
		vs.Assume(b[i] >= '0' && b[i] <= '9')
		v = v*10 + int(b[i]-'0')
	}
	return b, v
}

// vhC13TextRow builds a one-column text-protocol row holding s.
func vhC13TextRow(s []byte) RowData {
	return RowData(append([]byte{byte(len(s))}, s...))
}

// vhC13Binary runs one text cell through the path COM_STMT_EXECUTE responses take
// (ParseText, then BuildBinaryResultset) and returns the bytes after header and null bitmap.
func vhC13Binary(tp byte, flag uint16, text []byte) (payload []byte, ok bool) {
	fields := []*Field{{Name: []byte("c"), Type: tp, Flag: flag}}
	vals, err := vhC13TextRow(text).ParseText(fields)
	if err != nil {
		return nil, false
	}
	rs, err := BuildBinaryResultset(fields, [][]interface{}{vals})
	if err != nil {
		return nil, false
	}
	row := rs.RowDatas[0]
	vs.Assert(len(row) >= 2 && row[0] == 0 && row[1] == 0, "C13/text-to-binary-row-header")
	return row[2:], true
}

//verif:harness prop=C13 bounds="one DATE column through ParseText+BuildBinaryResultset; text YYYY-MM-DD with YYYY from {0000,1000,2024,9999} every MM in 00..12 and DD in 00..31 (zero-in-date values included; the calendar arithmetic of package time is run on concrete dates: its civil-date round trip is out of solver reach)"
func Harness_C13_Date() {
	years := []string{"0000", "1000", "2024", "9999"}
	yi := vs.Choice("year", len(years))
	m := vs.IntRange("month", 0, 12)
	mm := []byte{byte('0' + m/10), byte('0' + m%10)}
	d := vs.IntRange("day", 0, 31)
	dd := []byte{byte('0' + d/10), byte('0' + d%10)}
	text := append(append(append(append([]byte(years[yi]), '-'), mm...), '-'), dd...)
	y := []int{0, 1000, 2024, 9999}[yi]
	vs.Assume(m <= 12 && d <= 31) // what a MySQL DATE column can hold (zero-in-date and ALLOW_INVALID_DATES values included)
	vs.TagB("zeroInDate", vs.And(vs.Or(m == 0, d == 0), vs.Or(y != 0, vs.Or(m != 0, d != 0))))
	feb := vs.IteInt(y == 2024 || y == 0, 29, 28)
	dim := vs.IteInt(m == 2, feb, vs.IteInt(vs.Or(vs.Or(m == 4, m == 6), vs.Or(m == 9, m == 11)), 30, 31))
	vs.TagB("dayPastMonthEnd", d > dim)
	p, ok := vhC13Binary(TypeDate, uint16(BinaryFlag), text)
	if !ok {
		vs.Cover("C13/date-error")
		return
	}
	vs.Assert(len(p) >= 1 && (p[0] == 0 || p[0] == 4) && len(p) == 1+int(p[0]), "C13/date-well-formed")
	if len(p) == 1 {
		vs.Assert(y == 0 && m == 0 && d == 0, "C13/date-value-preserved")
		return
	}
	vs.Assert(int(p[1])|int(p[2])<<8 == y && int(p[3]) == m && int(p[4]) == d, "C13/date-value-preserved")
	vs.Cover("C13/date-done")
}

//verif:harness prop=C13 bounds="one DATETIME or TIMESTAMP column; text 2024-MM-DD hh:mm:ss[.ffffff] or the zero datetime; MM from {00,02,12}, DD from {00,29,31}, hh two symbolic digits, mm:ss from {00:00,59:59,60:00}, fraction from {none,.5,.000001,.999999,.000000}"
func Harness_C13_Datetime() {
	tp := []byte{TypeDatetime, TypeTimestamp}[vs.Choice("type", 2)]
	if vs.Choice("zero", 2) == 1 {
		frac := []string{"", ".000000"}[vs.Choice("zfrac", 2)]
		p, ok := vhC13Binary(tp, uint16(BinaryFlag), []byte("0000-00-00 00:00:00"+frac))
		if ok {
			vs.Assert(len(p) == 1 && p[0] == 0, "C13/zero-datetime")
		}
		return
	}
	months, days := []string{"00", "02", "12"}, []string{"00", "29", "31"}
	mi, di := vs.Choice("month", 3), vs.Choice("day", 3)
	hh, h := vhC13Digits("hh", 2)
	ms := []string{"00:00", "59:59", "60:00"}
	msi := vs.Choice("minsec", 3)
	fracs := []string{"", ".5", ".000001", ".999999", ".000000"}
	fi := vs.Choice("frac", len(fracs))
	text := []byte("2024-" + months[mi] + "-" + days[di] + " ")
	text = append(append(append(text, hh...), ':'), (ms[msi] + fracs[fi])...)
	p, ok := vhC13Binary(tp, uint16(BinaryFlag), text)
	if !ok {
		vs.Cover("C13/datetime-error")
		return
	}
	vs.Assert(len(p) >= 1 && (p[0] == 0 || p[0] == 4 || p[0] == 7 || p[0] == 11) && len(p) == 1+int(p[0]), "C13/datetime-well-formed")
	var f [11]byte
	copy(f[:], p[1:])
	us := int(f[7]) | int(f[8])<<8 | int(f[9])<<16 | int(f[10])<<24
	vs.Assert(int(f[0])|int(f[1])<<8 == 2024 && int(f[2]) == []int{0, 2, 12}[mi] && int(f[3]) == []int{0, 29, 31}[di], "C13/datetime-date-part-preserved")
	vs.Assert(int(f[4]) == h && int(f[5]) == []int{0, 59, 60}[msi] && int(f[6]) == []int{0, 59, 0}[msi], "C13/datetime-time-part-preserved")
	vs.Assert(us == []int{0, 500000, 1, 999999, 0}[fi], "C13/datetime-microseconds-preserved")
	vs.Cover("C13/datetime-done")
}

//verif:harness prop=C13 bounds="one TIME column; text [-]H..HHH:MM:SS[.ffffff] with 1..3 symbolic hour digits, MM and SS from {00,59,60} (quick) or two symbolic digits each (thorough), fraction from {none,.5,.000001,.999999}"
func Harness_C13_Time() {
	neg := vs.Choice("neg", 2) == 1
	hh, h := vhC13Digits("hh", vs.IntRange("hlen", 1, 3))
	var mm []byte
	var m int
	if vs.Tier() == 0 {
		mi := vs.Choice("min", 3)
		mm, m = []byte([]string{"00", "59", "60"}[mi]), []int{0, 59, 60}[mi]
	} else {
		mm, m = vhC13Digits("mm", 2)
	}
	var ss []byte
	var s int
	if vs.Tier() == 0 {
		si := vs.Choice("sec", 3)
		ss, s = []byte([]string{"00", "59", "60"}[si]), []int{0, 59, 60}[si]
	} else {
		ss, s = vhC13Digits("ss", 2)
	}
	fracs := []string{"", ".5", ".000001", ".999999"}
	fi := vs.Choice("frac", len(fracs))
	var text []byte
	if neg {
		text = append(text, '-')
	}
	text = append(append(append(append(append(append(text, hh...), ':'), mm...), ':'), ss...), fracs[fi]...)
	p, ok := vhC13Binary(TypeDuration, uint16(BinaryFlag), text)
	if !ok {
		vs.Cover("C13/time-error")
		return
	}
	vs.Assert(len(p) >= 1 && (p[0] == 0 || p[0] == 8 || p[0] == 12) && len(p) == 1+int(p[0]), "C13/time-well-formed")
	var f [12]byte
	copy(f[:], p[1:])
	days := int(f[1]) | int(f[2])<<8 | int(f[3])<<16 | int(f[4])<<24
	us := int(f[8]) | int(f[9])<<8 | int(f[10])<<16 | int(f[11])<<24
	wantUs := []int{0, 500000, 1, 999999}[fi]
	zero := h == 0 && m == 0 && s == 0 && wantUs == 0
	vs.Assert(int(f[5]) < 24 && days*24+int(f[5]) == h && int(f[6]) == m && int(f[7]) == s && us == wantUs, "C13/time-value-preserved")
	vs.Assert(zero || (f[0] == 1) == neg, "C13/time-sign-preserved")
	vs.Cover("C13/time-done")
}

//verif:harness prop=C13 bounds="one integer column (TINY, SHORT, INT24, LONG, LONGLONG, YEAR; signed or unsigned flag) whose text is an optional '-' and 1..3 symbolic digits, or one of the extreme values of each width"
func Harness_C13_IntText() {
	kinds := []byte{TypeTiny, TypeShort, TypeInt24, TypeLong, TypeLonglong, TypeYear}
	widths := []int{1, 2, 4, 4, 8, 2}
	ki := vs.Choice("type", len(kinds))
	unsigned := vs.Choice("unsigned", 2) == 1
	var flag uint16
	if unsigned {
		flag = uint16(UnsignedFlag)
	}
	var text []byte
	var want uint64
	if vs.Choice("extreme", 2) == 1 {
		lo := []string{"-128", "-32768", "-8388608", "-2147483648", "-9223372036854775808", "0"}
		hi := []string{"127", "32767", "8388607", "2147483647", "9223372036854775807", "2155"}
		uhi := []string{"255", "65535", "16777215", "4294967295", "18446744073709551615", "2155"}
		wlo := []uint64{1<<64 - 128, 1<<64 - 32768, 1<<64 - 8388608, 1<<64 - 2147483648, 1 << 63, 0}
		whi := []uint64{127, 32767, 8388607, 2147483647, 1<<63 - 1, 2155}
		wuhi := []uint64{255, 65535, 16777215, 4294967295, 1<<64 - 1, 2155}
		switch {
		case unsigned:
			text, want = []byte(uhi[ki]), wuhi[ki]
		case vs.Choice("low", 2) == 1:
			text, want = []byte(lo[ki]), wlo[ki]
		default:
			text, want = []byte(hi[ki]), whi[ki]
		}
	} else {
		neg := !unsigned && vs.Choice("neg", 2) == 1
		dg, v := vhC13Digits("digits", vs.IntRange("len", 1, 3))
		vs.Assume(widths[ki] > 1 || v <= 127 || (unsigned && v <= 255) || (neg && v <= 128))
		if neg {
			text = append(text, '-')
			want = uint64(-int64(v))
		} else {
			want = uint64(v)
		}
		text = append(text, dg...)
	}
	p, ok := vhC13Binary(kinds[ki], flag, text)
	if !ok {
		vs.Cover("C13/int-error")
		return
	}
	w := widths[ki]
	vs.Assert(len(p) == w, "C13/int-width")
	if len(p) != w {
		return
	}
	var got uint64
	for k := 0; k < w; k++ {
		got |= uint64(p[k]) << (8 * uint(k))
	}
	sh := uint(64 - 8*w)
	vs.Assert(got == want<<sh>>sh, "C13/int-text-value-preserved")
	vs.Cover("C13/int-done")
}
