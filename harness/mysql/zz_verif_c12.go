package mysql

// C12 — length-encoded wire values round-trip and decoding stays in bounds.

import (
	vs "github.com/XiaoMi/Gaea/zz_verifsym"
)

//verif:harness prop=C12 bounds="i: every uint64; buffer 9 bytes"
func Harness_C12_LenEncIntRoundTrip() {
	i := vs.Uint64("i")
	vs.TagU("i", i)
	buf := make([]byte, 9)
	n := WriteLenEncInt(buf, 0, i)
	vs.Assert(n == LenEncIntSize(i), "C12/int/size-write")
	v, np, isNull, ok := ReadLenEncInt(buf[:n], 0)
	vs.Assert(ok && !isNull, "C12/int/decodes")
	vs.Assert(v == i, "C12/int/roundtrip-write")
	vs.Assert(np == n, "C12/int/newpos-write")
	app := AppendLenEncInt(nil, i)
	vs.Assert(len(app) == n, "C12/int/size-append")
	for k := 0; k < n; k++ {
		vs.Assert(app[k] == buf[k], "C12/int/encoders-agree")
	}
	vs.Cover("C12/int/done")
}

//verif:harness prop=C12 bounds="string payload length 0..8 arbitrary bytes (quick) / 0..12 (thorough)"
func Harness_C12_LenEncStringRoundTrip() {
	n := vs.IntRange("n", 0, vs.Pick(8, 12))
	b := vs.Bytes("b", n)
	enc := AppendLenEncStringBytes(nil, b)
	v, np, isNull, ok := ReadLenEncStringAsBytes(enc, 0)
	vs.Assert(ok && !isNull, "C12/str/decodes")
	vs.Assert(np == len(enc), "C12/str/newpos")
	vs.Assert(len(v) == n, "C12/str/len")
	for k := 0; k < n && k < len(v); k++ {
		vs.Assert(v[k] == b[k], "C12/str/roundtrip")
	}
	s, np2, ok2 := readLenEncString(enc, 0)
	vs.Assert(ok2 && np2 == len(enc) && len(s) == n, "C12/str/readLenEncString")
	for k := 0; k < n && k < len(s); k++ {
		vs.Assert(s[k] == b[k], "C12/str/roundtrip2")
	}
	np3, ok3 := skipLenEncString(enc, 0)
	vs.Assert(ok3 && np3 == len(enc), "C12/str/skip")
	vs.Cover("C12/str/done")
}

func vhC12Buf() ([]byte, int, int) {
	n := vs.IntRange("len", 0, vs.Pick(10, 12))
	data := vs.Bytes("data", n)
	pos := vs.IntRange("pos", 0, n)
	if n > 0 {
		vs.TagU("b0", uint64(data[0]))
	}
	vs.TagI("len", int64(n))
	vs.TagI("pos", int64(pos))
	return data, n, pos
}

//verif:harness prop=C12 bounds="arbitrary buffer of length 0..10 (quick) / 0..12 (thorough), 0<=pos<=len"
func Harness_C12_DecodeLenEncStringAsBytes() {
	data, n, pos := vhC12Buf()
	v, np, isNull, ok := ReadLenEncStringAsBytes(data, pos)
	if ok && !isNull {
		vs.Assert(np >= pos && np <= n, "C12/strbytes/newpos-in-bounds")
		vs.Assert(vs.IsSubslice(v, data), "C12/strbytes/value-in-input")
	}
	if ok {
		vs.Cover("C12/strbytes/ok")
	}
}

//verif:harness prop=C12 bounds="arbitrary buffer of length 0..10/12, 0<=pos<=len"
func Harness_C12_DecodeReadLenEncString() {
	data, n, pos := vhC12Buf()
	s, np, ok := readLenEncString(data, pos)
	if ok {
		vs.Assert(np >= pos && np <= n, "C12/readstr/newpos-in-bounds")
		vs.Assert(len(s) <= n-pos, "C12/readstr/len")
		vs.Cover("C12/readstr/ok")
	}
}

//verif:harness prop=C12 bounds="arbitrary buffer of length 0..10/12, 0<=pos<=len"
func Harness_C12_DecodeSkipLenEncString() {
	data, n, pos := vhC12Buf()
	np, ok := skipLenEncString(data, pos)
	if ok {
		vs.Assert(np >= pos && np <= n, "C12/skip/newpos-in-bounds")
		vs.Cover("C12/skip/ok")
	}
}

//verif:harness prop=C12 bounds="arbitrary buffer of length 0..10/12, 0<=pos<=len"
func Harness_C12_DecodeLenEncInt() {
	data, n, pos := vhC12Buf()
	_, np, _, ok := ReadLenEncInt(data, pos)
	if ok {
		vs.Assert(np > pos && np <= n, "C12/readint/newpos-in-bounds")
		vs.Cover("C12/readint/ok")
	}
}

//verif:harness prop=C12 bounds="arbitrary buffer of length 0..10/12, 0<=pos<=len, size any int"
func Harness_C12_DecodeReadBytes() {
	data, n, pos := vhC12Buf()
	size := vs.Int("size")
	vs.TagI("size", int64(size))
	v, np, ok := ReadBytes(data, pos, size)
	if ok {
		vs.Assert(np >= pos && np <= n, "C12/readbytes/newpos-in-bounds")
		vs.Assert(vs.IsSubslice(v, data), "C12/readbytes/value-in-input")
		vs.Cover("C12/readbytes/ok")
	}
	c, np2, ok2 := ReadBytesCopy(data, pos, size)
	if ok2 {
		vs.Assert(np2 >= pos && np2 <= n && len(c) == np2-pos, "C12/readbytescopy/in-bounds")
	}
}

//verif:harness prop=C12 bounds="arbitrary buffer of length 0..10/12, 0<=pos<=len"
func Harness_C12_DecodeFixed() {
	data, n, pos := vhC12Buf()
	if _, np, ok := ReadByte(data, pos); ok {
		vs.Assert(np == pos+1 && np <= n, "C12/readbyte")
	}
	if _, np, ok := ReadUint16(data, pos); ok {
		vs.Assert(np == pos+2 && np <= n, "C12/readuint16")
	}
	if _, np, ok := ReadUint32(data, pos); ok {
		vs.Assert(np == pos+4 && np <= n, "C12/readuint32")
	}
	if _, np, ok := ReadUint64(data, pos); ok {
		vs.Assert(np == pos+8 && np <= n, "C12/readuint64")
	}
	if s, np, ok := ReadNullString(data, pos); ok {
		vs.Assert(np > pos && np <= n && len(s) == np-pos-1, "C12/readnullstring")
	}
	if b, np, ok := ReadNullByte(data, pos); ok {
		vs.Assert(np > pos && np <= n && len(b) == np-pos-1 && vs.IsSubslice(b, data), "C12/readnullbyte")
	}
	vs.Cover("C12/fixed/done")
}
