package mysql

// C36 — the SQL blacklist ignores literals, spacing, case and comments.
//
// Metamorphic: every variant of a base statement that differs only in literal values,
// whitespace, keyword case or a comment has the base statement's fingerprint (the
// blacklist compares md5(fingerprint)); a statement that differs in an identifier or an
// operator has another one.

import (
	vs "github.com/XiaoMi/Gaea/zz_verifsym"
)

func vhWS(name string) byte {
	b := vs.Byte(name)
	vs.Assume(vs.Or(b == ' ', vs.Or(b == '\t', b == '\n')))
	return b
}

func vhDigits(name string, n int) []byte {
	b := vs.Bytes(name, n)
	for i := range b {
		vs.Assume(vs.And(b[i] >= '0', b[i] <= '9'))
	}
	return b
}

// vhPlain: n symbolic printable ASCII bytes that are neither a quote nor a backslash.
func vhPlain(name string, n int) []byte {
	b := vs.Bytes(name, n)
	for i := range b {
		vs.Assume(vs.And(b[i] >= ' ', b[i] <= '~'))
		vs.Assume(vs.And(b[i] != '\'', vs.And(b[i] != '"', b[i] != '\\')))
	}
	return b
}

func vhKw(word string) []byte {
	b := []byte(word)
	for i, c := range b {
		b[i] = vs.IteByte(vs.Bool("upper"), c-'a'+'A', c)
	}
	return b
}

type vhC36Parts struct {
	kwSelect, kwFrom, kwWhere, kwAnd []byte
	gap                                [7][]byte // the seven gaps of the statement
	num, str                           []byte
	strQuote                           byte
}

// select a from t where id = <num> and name = '<str>'
func (p *vhC36Parts) text() []byte {
	var t []byte
	add := func(parts ...[]byte) {
		for _, x := range parts {
			t = append(t, x...)
		}
	}
	add(p.kwSelect, p.gap[0], []byte("a"), p.gap[1], p.kwFrom, p.gap[2], []byte("t"), p.gap[3], p.kwWhere, p.gap[4], []byte("id = "), p.num,
		p.gap[5], p.kwAnd, p.gap[6], []byte("name = "), []byte{p.strQuote}, p.str, []byte{p.strQuote})
	return t
}

func vhC36Base() *vhC36Parts {
	p := &vhC36Parts{kwSelect: []byte("select"), kwFrom: []byte("from"), kwWhere: []byte("where"), kwAnd: []byte("and"),
		num: []byte("1"), str: []byte("x"), strQuote: '\''}
	for i := range p.gap {
		p.gap[i] = []byte(" ")
	}
	return p
}

//verif:harness prop=C36 bounds="base statement select a from t where id = 1 and name = 'x'; one variation at a time: number literal of 1..3 symbolic digits; string literal of 0..2 symbolic printable bytes in ' or \" quotes, or containing an escaped quote; one gap widened to 1..2 symbolic whitespace bytes; the letters of one keyword with symbolic case; one block comment /*S*/ (S 0..2 symbolic bytes without * and /) inserted at a gap, surrounded by spaces or glued to the preceding token"
func Harness_C36_VariantsShareFingerprint() {
	want := GetFingerprint(string(vhC36Base().text()))
	p := vhC36Base()
	kind := vs.Choice("variation", 6)
	vs.TagI("variation", int64(kind))
	switch kind {
	case 0:
		p.num = vhDigits("digit", vs.IntRange("digits", 1, 3))
	case 1:
		p.str = vhPlain("char", vs.IntRange("chars", 0, 2))
		if vs.Choice("doubleQuote", 2) == 1 {
			p.strQuote = '"'
		}
	case 2:
		p.str = []byte{'a', '\\', vs.IteByte(vs.Bool("escapedSingle"), '\'', '"'), 'b'}
	case 3:
		g := vs.Choice("gap", 7)
		p.gap[g] = []byte{vhWS("ws")}
		if vs.Choice("two", 2) == 1 {
			p.gap[g] = append(p.gap[g], vhWS("ws"))
		}
	case 4:
		switch vs.Choice("keyword", 4) {
		case 0:
			p.kwSelect = vhKw("select")
		case 1:
			p.kwFrom = vhKw("from")
		case 2:
			p.kwWhere = vhKw("where")
		case 3:
			p.kwAnd = vhKw("and")
		}
	case 5:
		g := vs.Choice("gap", 7)
		n := vs.IntRange("commentLen", 0, 2)
		c := vs.Bytes("commentChar", n)
		for i := range c {
			vs.Assume(vs.And(c[i] >= ' ', c[i] <= '~'))
			vs.Assume(vs.And(c[i] != '*', c[i] != '/'))
		}
		if n > 0 {
			// '/*!' is MySQL's executable comment and '/*+' an optimizer hint: not plain comments
			vs.Assume(vs.And(c[0] != '!', c[0] != '+'))
		}
		glued := vs.Choice("glued", 2) == 1
		vs.TagI("gap", int64(g))
		vs.TagB("glued", glued)
		var cm []byte
		if !glued {
			cm = append(cm, ' ')
		}
		cm = append(append(append(cm, '/', '*'), c...), '*', '/', ' ')
		p.gap[g] = cm
	}
	got := GetFingerprint(string(p.text()))
	vs.Assert(got == want, "C36/variant-has-the-blacklisted-fingerprint:"+[]string{"number", "string", "escaped-quote", "whitespace", "case", "comment"}[kind])
	vs.Cover("C36/variants/done")
}

//verif:harness prop=C36 bounds="IN lists: select a from t where id in (v1,..,vn) with n = 1..4 values of 1..2 symbolic digits each, optional space after the commas, against the 1-value base"
func Harness_C36_InLists() {
	want := GetFingerprint("select a from t where id in (1)")
	n := vs.IntRange("values", 1, 4)
	t := []byte("select a from t where id in (")
	for i := 0; i < n; i++ {
		if i > 0 {
			t = append(t, ',')
			if vs.Choice("space", 2) == 1 {
				t = append(t, ' ')
			}
		}
		t = append(t, vhDigits("digit", vs.IntRange("digits", 1, 2))...)
	}
	t = append(t, ')')
	vs.Assert(GetFingerprint(string(t)) == want, "C36/in-list-length-and-values-ignored")
	vs.Cover("C36/in/done")
}

//verif:harness prop=C36 bounds="mutants of the base statement: one identifier letter replaced by another letter (symbolic), the operator '=' replaced by one of < > !, or a column added"
func Harness_C36_MutantsDiffer() {
	want := GetFingerprint(string(vhC36Base().text()))
	var text []byte
	switch vs.Choice("mutant", 4) {
	case 0: // another table
		c := vs.Byte("letter")
		vs.Assume(vs.And(c >= 'a', c <= 'z'))
		vs.Assume(c != 't')
		text = []byte("select a from " + string([]byte{c}) + " where id = 1 and name = 'x'")
	case 1: // another column
		c := vs.Byte("letter")
		vs.Assume(vs.And(c >= 'b', c <= 'z'))
		text = []byte("select " + string([]byte{c}) + " from t where id = 1 and name = 'x'")
	case 2: // another operator
		op := []byte{'<', '>', '!'}[vs.Choice("op", 3)]
		text = []byte("select a from t where id " + string([]byte{op}) + " 1 and name = 'x'")
	case 3: // one more column
		text = []byte("select a, b from t where id = 1 and name = 'x'")
	}
	vs.Assert(GetFingerprint(string(text)) != want, "C36/different-statement-has-another-fingerprint")
	vs.Cover("C36/mutants/done")
}
