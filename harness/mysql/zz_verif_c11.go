package mysql

// C11 — MySQL packets arrive intact and correctly sequenced.
//
// The frame limit (16 MiB - 1) is scaled down to 8 bytes inside the proxy's code by the engine
// (scaleconst), so that payloads of "several times the frame limit" are a few bytes long.

import (
	"io"
	"net"
	"time"

	vs "github.com/XiaoMi/Gaea/zz_verifsym"
)

const vhC11Limit = 8

type vhC11Addr struct{}

func (vhC11Addr) Network() string { return "tcp" }
func (vhC11Addr) String() string  { return "10.0.0.3:1" }

// vhC11Pipe records what is written and serves scripted bytes in fragments of a chosen size.
type vhC11Pipe struct {
	out  []byte
	in   []byte
	pos  int
	frag int
}

func (c *vhC11Pipe) Read(b []byte) (int, error) {
	if c.pos >= len(c.in) {
		return 0, io.EOF
	}
	n := len(b)
	if c.frag > 0 && n > c.frag {
		n = c.frag
	}
	n = copy(b[:n], c.in[c.pos:])
	c.pos += n
	return n, nil
}
func (c *vhC11Pipe) Write(b []byte) (int, error)    { c.out = append(c.out, b...); return len(b), nil }
func (c *vhC11Pipe) Close() error                   { return nil }
func (*vhC11Pipe) LocalAddr() net.Addr              { return vhC11Addr{} }
func (*vhC11Pipe) RemoteAddr() net.Addr             { return vhC11Addr{} }
func (*vhC11Pipe) SetDeadline(time.Time) error      { return nil }
func (*vhC11Pipe) SetReadDeadline(time.Time) error  { return nil }
func (*vhC11Pipe) SetWriteDeadline(time.Time) error { return nil }

// vhC11Frames is the protocol's framing of one payload: frames of at most the limit, the last one
// shorter than the limit (empty after an exact multiple), sequence ids counting up from seq.
func vhC11Frames(data []byte, seq byte) (stream []byte, frames int) {
	for {
		n := len(data)
		if n > vhC11Limit {
			n = vhC11Limit
		}
		stream = append(stream, byte(n), 0, 0, seq)
		stream = append(stream, data[:n]...)
		seq++
		frames++
		data = data[n:]
		if n < vhC11Limit {
			return
		}
	}
}

//verif:harness prop=C11 scaleconst=16777215:8 bounds="(engine-only: frame limit scaled from 2^24-1 to 8 bytes) writer: every payload length 0..25 (boundary set 0, 1, limit-1, limit, limit+1, 2*limit, 3*limit, 3*limit+1 included) with symbolic bytes and a symbolic starting sequence id, written by the real Conn.WritePacket and compared with the protocol's framing"
func Harness_C11_Write() {
	n := vs.IntRange("payloadLength", 0, 25)
	data := vs.Bytes("payload", n)
	seq := vs.Byte("sequence")
	pipe := &vhC11Pipe{}
	c := NewConn(pipe)
	c.SetSequence(seq)
	err := c.WritePacket(data)
	vs.Assert(err == nil, "C11/write-succeeds")
	if c.bufferedWriter != nil {
		c.bufferedWriter.Flush()
	}
	want, frames := vhC11Frames(data, seq)
	vs.Assert(len(pipe.out) == len(want), "C11/frames-as-the-protocol-prescribes")
	for i := 0; i < len(want) && i < len(pipe.out); i++ {
		vs.Assert(pipe.out[i] == want[i], "C11/frames-as-the-protocol-prescribes")
	}
	vs.Assert(c.sequence == seq+byte(frames), "C11/sequence-advanced-once-per-frame")
	vs.Cover("C11/write-done")
}

//verif:harness prop=C11 scaleconst=16777215:8 bounds="(engine-only: frame limit scaled to 8 bytes) reader: the protocol's framing of every payload length 0..25 with symbolic bytes and starting sequence id, delivered whole, in 1-byte or in 3-byte fragments, read back by ReadPacket or ReadEphemeralPacket; optionally one frame carries a wrong sequence id (any other value), which must be rejected"
func Harness_C11_Read() {
	n := vs.IntRange("payloadLength", 0, 25)
	data := vs.Bytes("payload", n)
	seq := vs.Byte("sequence")
	stream, frames := vhC11Frames(data, seq)
	corrupt := vs.IntRange("corruptFrame", -1, frames-1)
	if corrupt >= 0 {
		// find the header of that frame and give it another sequence id
		pos := 0
		for f := 0; f < corrupt; f++ {
			pos += 4 + int(stream[pos])
		}
		bad := vs.Byte("wrongSequence")
		vs.Assume(bad != stream[pos+3])
		vs.TagB("emptyFrameCorrupted", stream[pos] == 0)
		stream = append([]byte(nil), stream...)
		stream[pos+3] = bad
	} else {
		vs.TagB("emptyFrameCorrupted", false)
	}
	pipe := &vhC11Pipe{in: stream, frag: []int{0, 1, 3}[vs.Choice("fragment", 3)]}
	c := NewConn(pipe)
	c.SetSequence(seq)
	var got []byte
	var err error
	if vs.Choice("ephemeral", 2) == 1 {
		got, err = c.ReadEphemeralPacket()
	} else {
		got, err = c.ReadPacket()
	}
	if corrupt >= 0 {
		vs.Assert(err != nil, "C11/unexpected-sequence-id-is-rejected")
		return
	}
	vs.Assert(err == nil, "C11/well-formed-frames-are-read")
	if err != nil {
		return
	}
	vs.Assert(len(got) == n, "C11/payload-reassembled")
	for i := 0; i < n && i < len(got); i++ {
		vs.Assert(got[i] == data[i], "C11/payload-reassembled")
	}
	vs.Assert(c.sequence == seq+byte(frames), "C11/sequence-advanced-once-per-frame")
	vs.Assert(pipe.pos == len(stream), "C11/reader-consumed-exactly-the-packet's-frames")
	vs.Cover("C11/read-done")
}
