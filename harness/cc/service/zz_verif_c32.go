package service

// C32 — a namespace change is applied on all proxies or on none.
//
// ModifyNamespace / DelNamespace run as they are; the coordinator store and the proxies' admin
// API are models (mocks): the store holds one configuration version per namespace, a proxy holds a
// prepared and a running version and answers prepare / commit as scripted.

import (
	"errors"

	"github.com/XiaoMi/Gaea/models"
	vs "github.com/XiaoMi/Gaea/zz_verifsym"
)

type vhC32Proxy struct {
	prepared, running string
	prepareFails      bool
	commitFails       bool
	deleteFails       bool
	calls             []string
}

var (
	vhC32Store   map[string]*models.Namespace
	vhC32Proxies map[string]*vhC32Proxy
	vhC32Order   []string
)

func vhC32Encrypt(n *models.Namespace, key string) error { return nil }
func vhC32Dup(encryptKey string, storeConn *models.Store, newNamespace models.Namespace) error {
	return nil
}
func vhC32NewClient(configType, addr, username, password, root string) (models.Client, error) {
	return nil, nil
}
func vhC32NewStore(client models.Client) *models.Store { return &models.Store{} }
func vhC32Close(s *models.Store) error                { return nil }
func vhC32Load(s *models.Store, key, name string) (*models.Namespace, error) {
	if n, ok := vhC32Store[name]; ok {
		c := *n
		return &c, nil
	}
	return nil, errors.New("vh: no such namespace") // treated as a load error (not ErrNoNode): see harness
}
func vhC32Update(s *models.Store, p *models.Namespace) error {
	c := *p
	vhC32Store[p.Name] = &c
	return nil
}
func vhC32Del(s *models.Store, name string) error { delete(vhC32Store, name); return nil }
func vhC32List(s *models.Store) (map[string]*models.ProxyMonitorMetric, error) {
	m := map[string]*models.ProxyMonitorMetric{}
	for _, h := range vhC32Order {
		m[h] = &models.ProxyMonitorMetric{IP: h, AdminPort: "1"}
	}
	return m, nil
}
func vhC32Prepare(host, name string, cfg *models.CCConfig) error {
	p := vhC32Proxies[host]
	p.calls = append(p.calls, "prepare")
	if p.prepareFails {
		return errors.New("prepare failed")
	}
	if n, ok := vhC32Store[name]; ok {
		p.prepared = n.SlowSQLTime // the proxy loads the stored configuration
	}
	return nil
}
func vhC32Commit(host, name string, cfg *models.CCConfig) error {
	p := vhC32Proxies[host]
	p.calls = append(p.calls, "commit")
	if p.commitFails {
		return errors.New("commit failed")
	}
	if p.prepared == "" {
		return errors.New("namespace is not prepared")
	}
	p.running, p.prepared = p.prepared, ""
	return nil
}
func vhC32DelProxy(host, name string, cfg *models.CCConfig) error {
	p := vhC32Proxies[host]
	p.calls = append(p.calls, "delete")
	if p.deleteFails {
		return errors.New("delete failed")
	}
	p.running = ""
	return nil
}

func vhC32Namespace(version string) *models.Namespace {
	return &models.Namespace{
		Name: "ns", AllowedDBS: map[string]bool{"db": true}, SlowSQLTime: version,
		Users:        []*models.User{{UserName: "u", Password: "p", Namespace: "ns", RWFlag: models.ReadWrite, RWSplit: models.ReadWriteSplit}},
		Slices:       []*models.Slice{{Name: "s0", UserName: "u", Password: "p", Master: "127.0.0.1:3306", Capacity: 1, MaxCapacity: 1}},
		DefaultSlice: "s0",
	}
}

//verif:harness prop=C32 bounds="ModifyNamespace of an existing namespace (version 100 -> 200) over 1..3 registered proxies; every proxy's prepare and commit scripted to succeed or to fail on every retry (a timeout is a failure), in every combination; store and proxies are models"
//verif:mock (*github.com/XiaoMi/Gaea/models.Namespace).Encrypt vhC32Encrypt
//verif:mock github.com/XiaoMi/Gaea/cc/service.checkForDuplicateUsernameAndPassword vhC32Dup
//verif:mock github.com/XiaoMi/Gaea/models.NewClient vhC32NewClient
//verif:mock github.com/XiaoMi/Gaea/models.NewStore vhC32NewStore
//verif:mock (*github.com/XiaoMi/Gaea/models.Store).Close vhC32Close
//verif:mock (*github.com/XiaoMi/Gaea/models.Store).LoadNamespace vhC32Load
//verif:mock (*github.com/XiaoMi/Gaea/models.Store).UpdateNamespace vhC32Update
//verif:mock (*github.com/XiaoMi/Gaea/models.Store).DelNamespace vhC32Del
//verif:mock (*github.com/XiaoMi/Gaea/models.Store).ListProxyMonitorMetrics vhC32List
//verif:mock github.com/XiaoMi/Gaea/cc/proxy.PrepareConfig vhC32Prepare
//verif:mock github.com/XiaoMi/Gaea/cc/proxy.CommitConfig vhC32Commit
func Harness_C32_ModifyNamespace() {
	n := vs.IntRange("proxies", 1, 3)
	vhC32Store = map[string]*models.Namespace{"ns": vhC32Namespace("100")}
	vhC32Proxies = map[string]*vhC32Proxy{}
	vhC32Order = nil
	anyPrepareFails, anyCommitFails, allCommitFail := false, false, true
	for i := 0; i < n; i++ {
		h := []string{"a", "b", "c"}[i]
		p := &vhC32Proxy{running: "100"}
		p.prepareFails = vs.Choice("prepareFails", 2) == 1
		p.commitFails = vs.Choice("commitFails", 2) == 1
		anyPrepareFails = anyPrepareFails || p.prepareFails
		anyCommitFails = anyCommitFails || p.commitFails
		allCommitFail = allCommitFail && p.commitFails
		vhC32Proxies[h+":1"] = p
		vhC32Order = append(vhC32Order, h)
	}
	vs.TagB("commitFailsOnSomeButNotAll", !anyPrepareFails && anyCommitFails && !allCommitFail)
	err := ModifyNamespace(vhC32Namespace("200"), &models.CCConfig{}, "")
	if err == nil {
		vs.Assert(vhC32Store["ns"] != nil && vhC32Store["ns"].SlowSQLTime == "200", "C32/success-means-the-store-holds-the-new-configuration")
		for _, p := range vhC32Proxies {
			vs.Assert(p.running == "200", "C32/success-means-every-proxy-runs-the-new-configuration")
		}
		vs.Cover("C32/changed")
		return
	}
	vs.Assert(vhC32Store["ns"] != nil && vhC32Store["ns"].SlowSQLTime == "100", "C32/failure-leaves-the-stored-configuration-unchanged")
	for _, p := range vhC32Proxies {
		vs.Assert(p.running == "100", "C32/failure-leaves-every-proxy-on-the-previous-configuration")
	}
	vs.Cover("C32/refused")
}

//verif:harness prop=C32 sched=symbolic:1 noreplay=1 bounds="(engine-only: schedules cannot be forced natively) the same over 2 proxies with every interleaving of the per-proxy worker goroutines at their synchronisation operations (channel send, WaitGroup) with at most one preemption; every proxy's prepare and commit scripted to succeed or to fail on every retry (a timeout is a failure), in every combination; store and proxies are models"
//verif:mock (*github.com/XiaoMi/Gaea/models.Namespace).Encrypt vhC32Encrypt
//verif:mock github.com/XiaoMi/Gaea/cc/service.checkForDuplicateUsernameAndPassword vhC32Dup
//verif:mock github.com/XiaoMi/Gaea/models.NewClient vhC32NewClient
//verif:mock github.com/XiaoMi/Gaea/models.NewStore vhC32NewStore
//verif:mock (*github.com/XiaoMi/Gaea/models.Store).Close vhC32Close
//verif:mock (*github.com/XiaoMi/Gaea/models.Store).LoadNamespace vhC32Load
//verif:mock (*github.com/XiaoMi/Gaea/models.Store).UpdateNamespace vhC32Update
//verif:mock (*github.com/XiaoMi/Gaea/models.Store).DelNamespace vhC32Del
//verif:mock (*github.com/XiaoMi/Gaea/models.Store).ListProxyMonitorMetrics vhC32List
//verif:mock github.com/XiaoMi/Gaea/cc/proxy.PrepareConfig vhC32Prepare
//verif:mock github.com/XiaoMi/Gaea/cc/proxy.CommitConfig vhC32Commit
func Harness_C32_ModifyNamespaceInterleaved() {
	n := 2
	vhC32Store = map[string]*models.Namespace{"ns": vhC32Namespace("100")}
	vhC32Proxies = map[string]*vhC32Proxy{}
	vhC32Order = nil
	anyPrepareFails, anyCommitFails, allCommitFail := false, false, true
	for i := 0; i < n; i++ {
		h := []string{"a", "b", "c"}[i]
		p := &vhC32Proxy{running: "100"}
		p.prepareFails = vs.Choice("prepareFails", 2) == 1
		p.commitFails = vs.Choice("commitFails", 2) == 1
		anyPrepareFails = anyPrepareFails || p.prepareFails
		anyCommitFails = anyCommitFails || p.commitFails
		allCommitFail = allCommitFail && p.commitFails
		vhC32Proxies[h+":1"] = p
		vhC32Order = append(vhC32Order, h)
	}
	vs.TagB("commitFailsOnSomeButNotAll", !anyPrepareFails && anyCommitFails && !allCommitFail)
	err := ModifyNamespace(vhC32Namespace("200"), &models.CCConfig{}, "")
	if err == nil {
		vs.Assert(vhC32Store["ns"] != nil && vhC32Store["ns"].SlowSQLTime == "200", "C32/success-means-the-store-holds-the-new-configuration")
		for _, p := range vhC32Proxies {
			vs.Assert(p.running == "200", "C32/success-means-every-proxy-runs-the-new-configuration")
		}
		vs.Cover("C32/changed")
		return
	}
	vs.Assert(vhC32Store["ns"] != nil && vhC32Store["ns"].SlowSQLTime == "100", "C32/failure-leaves-the-stored-configuration-unchanged")
	for _, p := range vhC32Proxies {
		vs.Assert(p.running == "100", "C32/failure-leaves-every-proxy-on-the-previous-configuration")
	}
	vs.Cover("C32/refused")
}

//verif:harness prop=C32 bounds="DelNamespace over 1..3 registered proxies, each proxy's delete call scripted to succeed or fail"
//verif:mock github.com/XiaoMi/Gaea/models.NewClient vhC32NewClient
//verif:mock github.com/XiaoMi/Gaea/models.NewStore vhC32NewStore
//verif:mock (*github.com/XiaoMi/Gaea/models.Store).Close vhC32Close
//verif:mock (*github.com/XiaoMi/Gaea/models.Store).DelNamespace vhC32Del
//verif:mock (*github.com/XiaoMi/Gaea/models.Store).ListProxyMonitorMetrics vhC32List
//verif:mock github.com/XiaoMi/Gaea/cc/proxy.DelNamespace vhC32DelProxy
func Harness_C32_DelNamespace() {
	n := vs.IntRange("proxies", 1, 3)
	vhC32Store = map[string]*models.Namespace{"ns": vhC32Namespace("100")}
	vhC32Proxies = map[string]*vhC32Proxy{}
	vhC32Order = nil
	anyFails := false
	for i := 0; i < n; i++ {
		h := []string{"a", "b", "c"}[i]
		p := &vhC32Proxy{running: "100", deleteFails: vs.Choice("deleteFails", 2) == 1}
		anyFails = anyFails || p.deleteFails
		vhC32Proxies[h+":1"] = p
		vhC32Order = append(vhC32Order, h)
	}
	vs.TagB("deleteFailsOnAProxy", anyFails)
	err := DelNamespace("ns", &models.CCConfig{}, "")
	if err == nil {
		vs.Assert(vhC32Store["ns"] == nil, "C32/deleted-from-the-store")
		for _, p := range vhC32Proxies {
			vs.Assert(p.running == "", "C32/success-means-no-proxy-runs-the-namespace")
		}
		vs.Cover("C32/deleted")
		return
	}
	vs.Assert(vhC32Store["ns"] != nil, "C32/failed-delete-leaves-the-stored-configuration")
	for _, p := range vhC32Proxies {
		vs.Assert(p.running == "100", "C32/failed-delete-leaves-every-proxy-running-the-namespace")
	}
	vs.Cover("C32/delete-refused")
}
