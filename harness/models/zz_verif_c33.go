package models

// C33 — stored configurations round-trip exactly and stay inside the storage area.

import (
	"crypto/aes"
	"crypto/cipher"
	"encoding/base64"
	"strings"

	vs "github.com/XiaoMi/Gaea/zz_verifsym"
)

// The AES block cipher is replaced by an arbitrary key-dependent bijection on 16-byte
// blocks (XOR with a symbolic mask): the claim is about padding, block looping, base64
// and the error paths around the cipher, not about AES itself.
type vhBlock struct{ mask []byte }

func (b *vhBlock) BlockSize() int { return 16 }
func (b *vhBlock) Encrypt(dst, src []byte) {
	for i := 0; i < 16; i++ {
		dst[i] = src[i] ^ b.mask[i]
	}
}
func (b *vhBlock) Decrypt(dst, src []byte) {
	for i := 0; i < 16; i++ {
		dst[i] = src[i] ^ b.mask[i]
	}
}

var vhMask []byte

func vhNewCipher(key []byte) (cipher.Block, error) {
	switch len(key) {
	case 16, 24, 32:
		return &vhBlock{mask: vhMask}, nil
	}
	return nil, aes.KeySizeError(len(key))
}

// base64 is an opaque bijection between bytes and text for this check (engine only: the
// table-driven codec forks per symbolic byte; native replays run the real one).
func vhB64Encode(enc *base64.Encoding, src []byte) string { return string(src) }
func vhB64Decode(enc *base64.Encoding, s string) ([]byte, error) { return []byte(s), nil }

//verif:stub (*encoding/base64.Encoding).EncodeToString vhB64Encode
//verif:stub (*encoding/base64.Encoding).DecodeString vhB64Decode
//verif:mock crypto/aes.NewCipher vhNewCipher
//verif:harness prop=C33 bounds="plain text of 0..17 (quick) / 0..33 (thorough) arbitrary bytes; key length 16, 24 or 32 (other lengths: error); AES block = XOR with 16 symbolic mask bytes"
func Harness_C33_EncryptDecryptRoundTrip() {
	vhMask = vs.Bytes("mask", 16)
	keyLen := []int{16, 24, 32, 15, 0}[vs.Choice("keyLen", 5)]
	key := strings.Repeat("k", keyLen)
	n := vs.IntRange("len", 0, vs.Pick(17, 33))
	data := vs.Bytes("data", n)
	enc, err := encrypt(key, string(data))
	if keyLen != 16 && keyLen != 24 && keyLen != 32 {
		vs.Assert(err != nil, "C33/crypt/bad-key-length-rejected")
		return
	}
	vs.Assert(err == nil, "C33/crypt/encrypt-ok")
	dec, err := decrypt(key, enc)
	vs.Assert(err == nil, "C33/crypt/decrypt-ok")
	vs.Assert(len(dec) == n, "C33/crypt/roundtrip-length")
	for i := 0; i < n && i < len(dec); i++ {
		vs.Assert(dec[i] == data[i], "C33/crypt/roundtrip-bytes")
	}
	vs.Cover("C33/crypt/done")
}

//verif:stub (*encoding/base64.Encoding).DecodeString vhB64Decode
//verif:mock crypto/aes.NewCipher vhNewCipher
//verif:harness prop=C33 bounds="decrypt of arbitrary stored data: 0..33 arbitrary bytes after base64 decoding (base64 itself is a stub); must fail or yield data, never panic"
func Harness_C33_DecryptMalformed() {
	vhMask = vs.Bytes("mask", 16)
	n := vs.IntRange("len", 0, 33)
	text := vs.Bytes("text", n)
	out, err := decrypt("kkkkkkkkkkkkkkkk", string(text))
	if err == nil {
		vs.Assert(len(out) <= n, "C33/malformed/output-not-longer-than-input")
		vs.Cover("C33/malformed/data")
	} else {
		vs.Cover("C33/malformed/error")
	}
}

//verif:harness prop=C33 bounds="local persistence paths: every path of 0..6 bytes over the alphabet {/ . a \\ * NUL}; storage directory /data/ns"
func Harness_C33_PathsStayInside() {
	n := vs.IntRange("len", 0, 6)
	b := vs.Bytes("path", n)
	for i := range b {
		ok := false
		for _, a := range []byte{'/', '.', 'a', '\\', '*', 0} {
			ok = vs.Or(ok, b[i] == a)
		}
		vs.Assume(ok)
	}
	lc := &LocalClient{storagePath: "/data/ns", FileSuffix: ".json"}
	p := string(b)
	full, err := lc.FullDirPath(p)
	if err == nil {
		vs.Assert(full == "/data/ns" || strings.HasPrefix(full, "/data/ns/"), "C33/path/dir-inside-storage")
		vs.Cover("C33/path/accepted")
	}
	fp, err := lc.FullNamespacePath(p)
	if err == nil {
		vs.Assert(strings.HasPrefix(fp, "/data/ns/") || fp == "/data/ns.json", "C33/path/file-inside-storage")
	}
}
