package parser

// C17 — multi-statement text is split exactly at statement boundaries.

import (
	vs "github.com/XiaoMi/Gaea/zz_verifsym"
)

// vhC17Ref splits per MySQL's lexical rules: a ';' inside a string, a quoted identifier or a
// comment does not split; statements without any token (blank or comment only) are skipped.
// ok=false when the text ends inside a string, identifier or block comment.
func vhC17Ref(s []byte) (pieces [][2]int, ok bool) {
	i, n := 0, len(s)
	begin := 0
	hasToken := false
	flush := func(end int) {
		if hasToken {
			pieces = append(pieces, [2]int{begin, end})
		}
		hasToken = false
	}
	for i < n {
		c := s[i]
		switch {
		case c == '\'' || c == '"' || c == '`':
			hasToken = true
			q := c
			i++
			closed := false
			for i < n {
				if s[i] == '\\' && q != '`' {
					i += 2
					continue
				}
				if s[i] == q {
					if i+1 < n && s[i+1] == q {
						i += 2
						continue
					}
					closed = true
					i++
					break
				}
				i++
			}
			if !closed {
				return pieces, false
			}
		case c == '#':
			for i < n && s[i] != '\n' {
				i++
			}
		case c == '-' && i+2 < n && s[i+1] == '-' && (s[i+2] == ' ' || s[i+2] == '\n' || s[i+2] == '\t'):
			for i < n && s[i] != '\n' {
				i++
			}
		case c == '/' && i+1 < n && s[i+1] == '*':
			i += 2
			closed := false
			for i+1 < n {
				if s[i] == '*' && s[i+1] == '/' {
					closed = true
					i += 2
					break
				}
				i++
			}
			if !closed {
				return pieces, false
			}
		case c == ';':
			flush(i)
			i++
			begin = i
		case c == ' ' || c == '\t' || c == '\n' || c == '\r':
			i++
		default:
			hasToken = true
			i++
		}
	}
	flush(n)
	return pieces, true
}

func vhC17Piece(name string) []byte {
	b := vs.Bytes(name, vs.IntRange(name+".len", 1, 2))
	for i := range b {
		ok := false
		for _, a := range []byte{';', '\'', '"', '`', '\\', '*', '/', '\n', 'a'} {
			ok = vs.Or(ok, b[i] == a)
		}
		vs.Assume(ok)
	}
	return b
}

//verif:harness prop=C17 bounds="text P1;P2 or P1;P2; with each P from {select 1, select 'S', select `S`, select 1 /*S*/, 'select 1 -- S\\n', '# S\\nselect 1', empty, blank}; one of the two pieces carries S = 1..2 symbolic bytes over {; ' \" ` \\ * / newline a}, the other uses the text a;b"
func Harness_C17_Split() {
	var text []byte
	hot := vs.Choice("hotPiece", 2)
	for k := 0; k < 2; k++ {
		if k > 0 {
			text = append(text, ';')
		}
		s := []byte("a;b")
		if k == hot {
			s = vhC17Piece("S")
		}
		switch vs.Choice("piece", 8) {
		case 0:
			text = append(text, "select 1"...)
		case 1:
			text = append(append(append(text, "select '"...), s...), '\'')
		case 2:
			text = append(append(append(text, "select `"...), s...), '`')
		case 3:
			text = append(append(append(text, "select 1 /*"...), s...), "*/"...)
		case 4:
			text = append(append(append(text, "select 1 -- "...), s...), '\n')
		case 5:
			text = append(append(append(text, "# "...), s...), "\nselect 1"...)
		case 6:
		case 7:
			text = append(text, ' ')
		}
	}
	if vs.Choice("trailingSemicolon", 2) == 1 {
		text = append(text, ';')
	}
	// tags for the known-findings file: the single-trailing-semicolon fast path on a blank text
	semis := 0
	blankHead := true
	for i := range text {
		semis += vs.IteInt(text[i] == ';', 1, 0)
		if i < len(text)-1 {
			blankHead = vs.And(blankHead, vs.Or(text[i] == ' ', vs.Or(text[i] == '\n', text[i] == '\t')))
		}
	}
	vs.TagB("fastPathBlank", vs.And(vs.And(semis == 1, blankHead), len(text) > 0 && text[len(text)-1] == ';'))
	want, ok := vhC17Ref(text)
	pieces, err := SplitStatementToPieces(string(text))
	if !ok {
		vs.Cover("C17/unterminated")
		return
	}
	vs.Assert(err == nil, "C17/well-formed-text-splits-without-error")
	vs.Assert(len(pieces) == len(want), "C17/number-of-statements")
	for i := range want {
		if i < len(pieces) {
			vs.Assert(pieces[i] == string(text[want[i][0]:want[i][1]]), "C17/each-statement-unchanged")
		}
	}
	vs.Cover("C17/done")
}
