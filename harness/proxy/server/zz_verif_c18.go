package server

// C18 — a transaction stays on one master connection per slice.
// C19 — backend connections are returned exactly once and never leaked.
// C23 — keep-session clients stay pinned to their backend connections.
//
// One harness body drives the real SessionExecutor transaction / connection functions with
// scripted pools (backend.VhPool); the three properties read the same ledger.

import (
	"errors"
	"time"

	"github.com/XiaoMi/Gaea/backend"
	"github.com/XiaoMi/Gaea/models"
	"github.com/XiaoMi/Gaea/mysql"
	"github.com/XiaoMi/Gaea/parser/ast"
	"github.com/XiaoMi/Gaea/util"
	vs "github.com/XiaoMi/Gaea/zz_verifsym"
)

func vhSessRecordMetrics(m *Manager, reqCtx *util.RequestContext, se *SessionExecutor, sliceName string, dbName string, sql string, backendAddr string, backendConnectionId int64, startTime time.Time, err error) {
}

type vhSess struct {
	led     *backend.VhLedger
	masters map[string]*backend.VhPool
	slaves  map[string]*backend.VhPool
	ns      *Namespace
	cc      *Session
	se      *SessionExecutor
	// fault script: the nth operation of kind faultOp fails (and, if closes, the connection is broken by it)
	faultOp  string
	faultNth int
	closes   bool
	seen     int
	faulted  bool
}

func vhSessSetup(keepSession, rwSplit, readOnly bool) *vhSess {
	s := &vhSess{led: &backend.VhLedger{}, masters: map[string]*backend.VhPool{}, slaves: map[string]*backend.VhPool{}}
	script := func(c *backend.VhConn, op string, arg string) error {
		if c.Closed {
			return errors.New("connection is closed") // nothing works on a broken connection
		}
		if op == s.faultOp {
			s.seen++
			if s.seen-1 == s.faultNth {
				s.faulted = true
				if s.closes {
					c.Closed = true
				} else if op == "commit" || op == "rollback" {
					c.InTx = false // the server answered COMMIT / ROLLBACK with an error: it has ended the transaction
				}
				return errors.New("backend fault")
			}
		}
		return nil
	}
	slices := map[string]*backend.Slice{}
	for _, name := range []string{"s0", "s1"} {
		getFails := func() bool {
			if s.faultOp != "get" {
				return false
			}
			s.seen++
			if s.seen-1 == s.faultNth {
				s.faulted = true
				return true
			}
			return false
		}
		big := func(c *backend.VhConn, sql string) (*mysql.Result, error) {
			if sql == "select big" {
				c.MoreRows = true // the result is larger than the streaming threshold
			}
			return &mysql.Result{}, nil
		}
		mp := &backend.VhPool{Name: name + "-master", Master: true, Ledger: s.led, Script: script, GetFails: getFails, ExecResult: big}
		sp := &backend.VhPool{Name: name + "-slave", Ledger: s.led, Script: script, GetFails: getFails, ExecResult: big}
		s.masters[name], s.slaves[name] = mp, sp
		slices[name] = &backend.Slice{Namespace: "ns",
			Master: &backend.DBInfo{Nodes: []*backend.NodeInfo{{Address: mp.Name, ConnPool: mp, Status: backend.StatusUp, Weight: 1}}},
			Slave:  &backend.DBInfo{Nodes: []*backend.NodeInfo{{Address: sp.Name, ConnPool: sp, Status: backend.StatusUp, Weight: 1}}},
		}
		slices[name].Slave.InitBalancers("")
	}
	split := models.NoReadWriteSplit
	if rwSplit {
		split = models.ReadWriteSplit
	}
	rw := models.ReadWrite
	if readOnly {
		rw = models.ReadOnly
	}
	s.ns = &Namespace{name: "ns", slices: slices, defaultPhyDBs: map[string]string{"db": "db"},
		userProperties: map[string]*UserProperty{"u": {RWFlag: rw, RWSplit: split}}}
	nm := NewNamespaceManager()
	nm.namespaces["ns"] = s.ns
	m := &Manager{}
	m.namespaces[0] = nm
	srv := &Server{manager: m}
	s.cc = &Session{manager: m, proxy: srv, namespace: "ns", c: &ClientConn{Conn: mysql.NewConn(vhNetConn{}), manager: m}}
	s.cc.closed.Store(false)
	s.se = newSessionExecutor(m)
	s.se.session = s.cc
	s.se.user, s.se.namespace, s.se.db = "u", "ns", "db"
	s.se.contextNamespace = s.ns
	s.se.keepSession = keepSession
	s.se.userPriv = rw
	s.cc.executor = s.se
	return s
}

// executedOn lists the connections that executed a statement since the mark (their log grew by an "execute").
func (s *vhSess) executions(mark []int) (conns []*backend.VhConn) {
	for i, c := range s.led.Conns {
		n := 0
		for _, e := range c.Log {
			if e == "execute" {
				n++
			}
		}
		old := 0
		if i < len(mark) {
			old = mark[i]
		}
		if n > old {
			conns = append(conns, c)
		}
	}
	return
}

func (s *vhSess) mark() []int {
	m := make([]int, len(s.led.Conns))
	for i, c := range s.led.Conns {
		for _, e := range c.Log {
			if e == "execute" {
				m[i]++
			}
		}
	}
	return m
}

func vhCount(log []string, op string) int {
	n := 0
	for _, e := range log {
		if e == op {
			n++
		}
	}
	return n
}

// vhSessRun drives k commands and checks the three properties' oracles that apply to the mode.
func vhSessRun(prop string, keepSession bool, k int, withFaults bool) {
	userKind := vs.Choice("user", 3) // read/write, read/write with read/write splitting, read-only
	rwSplit, readOnly := userKind >= 1, userKind == 2
	s := vhSessSetup(keepSession, rwSplit, readOnly)
	s.faultOp = ""
	if withFaults {
		ops := []string{"", "execute", "begin", "commit", "rollback", "autocommit", "syncsessionvariables", "get"}
		s.faultOp = ops[vs.Choice("faultOp", len(ops))]
		if s.faultOp == "get" {
			s.faultNth = vs.Choice("faultNth", 2) // the first or the second Get of the session fails
		} else if s.faultOp != "" {
			s.faultNth = vs.Choice("faultNth", vs.Pick(1, 2))
			s.closes = vs.Choice("faultClosesConn", 2) == 1
			if s.faultOp == "autocommit" {
				s.closes = true // SET autocommit cannot fail on a healthy connection: the fault is a broken connection
			}
		}
	}
	vs.TagB("fault", s.faultOp != "")
	vs.TagB("faultCloses", s.closes)
	vs.TagB("keepSession", keepSession)
	se := s.se
	inTx := false                        // specification: between BEGIN / autocommit=0 and COMMIT / ROLLBACK
	autocommit := true                   // specification
	txConn := map[string]*backend.VhConn{} // the connection the current transaction uses on each slice
	ksConn := map[string]*backend.VhConn{} // keep-session: the connection of the session on each slice
	reloaded := false
	for step := 0; step < k; step++ {
		reloadedNow := false
		if prop == "C23" {
			// what Session.Run does around each command; the namespace may be reloaded while the
			// proxy waits for the client's next command
			se.nsChangeIndexOld = s.ns.namespaceChangeIndex
			if vs.Choice("namespaceReloaded", 2) == 1 {
				s.ns.namespaceChangeIndex++
				old := make([]*backend.VhConn, 0, 2)
				for _, c := range ksConn {
					old = append(old, c)
				}
				s.cc.clearKsConns(se.nsChangeIndexOld)
				if s.cc.shouldClearKsAndCloseSession(se.nsChangeIndexOld) {
					s.cc.Close() // Run answers ErrTxNsChanged and closes the session
				}
				if inTx {
					vs.Assert(s.cc.IsClosed(), "C23/client-in-a-transaction-is-disconnected-after-a-reload")
				} else {
					vs.Assert(!s.cc.IsClosed(), "C23/idle-client-survives-a-reload")
					for _, c := range old {
						vs.Assert(c.Closed && c.Recycled == 1, "C23/connections-of-the-old-configuration-are-dropped-after-a-reload")
					}
					ksConn = map[string]*backend.VhConn{}
				}
				reloaded, reloadedNow = true, true
				if s.cc.IsClosed() {
					break
				}
			}
		}
		cmd := vs.Choice("command", 10)
		vs.TagB("statementRightAfterReload", reloadedNow && (cmd >= 5 && cmd <= 7 || cmd == 9))
		mark := s.mark()
		var touched []string
		var err error
		switch cmd {
		case 0:
			err = se.handleBegin()
			if err == nil {
				inTx = true
			}
		case 1:
			err = se.handleCommit()
			inTx = !autocommit
			txConn = map[string]*backend.VhConn{}
		case 2:
			err = se.handleRollback(nil)
			inTx = !autocommit
			txConn = map[string]*backend.VhConn{}
		case 3:
			err = se.handleSetAutoCommit(false)
			autocommit, inTx = false, true
		case 4:
			err = se.handleSetAutoCommit(true)
			if !autocommit { // going from 0 to 1 commits; a redundant SET autocommit=1 changes nothing
				autocommit, inTx = true, false
				txConn = map[string]*backend.VhConn{}
			}
		case 5: // unsharded write on s0
			rc := util.NewRequestContext()
			rc.SetFromSlave(false)
			_, err = se.ExecuteSQL(rc, "s0", "db", "update u set a = 1")
			touched = []string{"s0"}
		case 6: // unsharded read on s0 (a replica read for read/write-splitting users)
			rc := util.NewRequestContext()
			rc.SetFromSlave(rwSplit)
			_, err = se.ExecuteSQL(rc, "s0", "db", "select * from u")
			touched = []string{"s0"}
		case 9: // unsharded read on s0 whose result is streamed (the connection stays with the session until the client has read it)
			rc := util.NewRequestContext()
			rc.SetFromSlave(rwSplit)
			_, err = se.ExecuteSQL(rc, "s0", "db", "select big")
			touched = []string{"s0"}
			if s.cc.continueConn != nil {
				// what Session.writeResponse does: stream to the end, then give the connection up
				if vc, ok := s.cc.continueConn.(*backend.VhConn); ok {
					vc.MoreRows = false
				}
				se.recycleContinueConn(s.cc.continueConn)
				s.cc.continueConn = nil
			}
		case 8: // SAVEPOINT sp1 (replayed on every connection the transaction takes later)
			err = se.handleSavepoint(&ast.SavepointStmt{Savepoint: "sp1"})
		case 7: // sharded statement on both slices
			rc := util.NewRequestContext()
			rc.SetFromSlave(false)
			_, err = se.ExecuteSQLs(rc, map[string]map[string][]string{"s0": {"db": {"update t_0000 set a = 1"}}, "s1": {"db": {"update t_0001 set a = 1"}}})
			touched = []string{"s0", "s1"}
		}
		_ = err
		if s.faulted {
			// after a backend fault the transaction's fate is the client's to decide; C18's
			// per-statement oracle applies to fault-free histories, C19's end-state oracle to all
			txConn = map[string]*backend.VhConn{}
		}
		if len(touched) > 0 && !s.faulted {
			for _, c := range s.executions(mark) {
				sl := c.Pool.Name[:2]
				if prop == "C18" && inTx && !keepSession {
					vs.Assert(c.Pool.Master, "C18/transaction-statement-runs-on-a-master-connection")
					if prev, ok := txConn[sl]; ok {
						vs.Assert(prev == c, "C18/transaction-keeps-one-connection-per-slice")
					}
					vs.Assert(c.Recycled == 0, "C18/transaction-connection-not-released-before-the-end")
					txConn[sl] = c
				}
				if prop == "C23" && keepSession {
					vs.Assert(c.Recycled <= 1, "C23/connection-returned-only-once")
					if prev, ok := ksConn[sl]; ok {
						vs.Assert(prev == c, "C23/keep-session-client-stays-on-its-connection")
					}
					vs.Assert(c.Recycled == 0, "C23/keep-session-connection-not-released-while-the-client-lives")
					ksConn[sl] = c
				}
			}
		}
		if prop == "C18" && !keepSession && !s.faulted && (cmd == 1 || cmd == 2) {
			// COMMIT / ROLLBACK reached exactly the transaction's connections, which are then released
			for _, c := range s.led.Conns {
				if c.InTx {
					vs.Fail("C18/transaction-left-open-on-a-connection-after-commit-or-rollback")
				}
			}
		}
	}
	_ = reloaded
	// the client disconnects
	s.cc.Close()
	for _, c := range s.led.Conns {
		vs.Assert(c.Recycled >= 1, prop+"/connection-returned-when-the-session-ends")
		vs.Assert(c.Recycled <= 1, prop+"/connection-returned-only-once")
		vs.Assert(!c.InTx || c.Closed, prop+"/no-open-transaction-left-on-a-pooled-connection")
	}
	vs.Cover(prop + "/session-done")
}

//verif:harness prop=C18 bounds="one session (no keep-session) of a read/write user, a read/write-splitting user or a read-only user on a namespace with two slices (scripted master and replica pools, no faults): every sequence of k=3 (quick) / 4 (thorough) commands from {BEGIN, COMMIT, ROLLBACK, SET autocommit=0, SET autocommit=1, unsharded write on slice 0, unsharded read on slice 0, sharded write on both slices, SAVEPOINT, unsharded read with a streamed result}, then disconnect; driven through the real handleBegin / handleCommit / handleRollback / handleSetAutoCommit / ExecuteSQL / ExecuteSQLs"
//verif:mock (*github.com/XiaoMi/Gaea/proxy/server.Manager).RecordBackendSQLMetrics vhSessRecordMetrics
func Harness_C18_TransactionConnections() {
	vhSessRun("C18", false, vs.Pick(3, 4), false)
}

//verif:harness prop=C19 bounds="the C18 session (also in keep-session mode) with at most one injected backend fault: the first (thorough: or second) execute / begin / commit / rollback / set autocommit / session-variable sync fails, with or without breaking the connection, or the first or second pool Get fails; every sequence of k=3 commands, then disconnect; every connection taken from a pool is returned exactly once and none is returned with an open transaction"
//verif:mock (*github.com/XiaoMi/Gaea/proxy/server.Manager).RecordBackendSQLMetrics vhSessRecordMetrics
func Harness_C19_ConnectionsReturned() {
	vhSessRun("C19", vs.Choice("keepSession", 2) == 1, 3, true)
}

//verif:harness prop=C23 bounds="the C18 session in keep-session mode without faults: every sequence of k=3 (quick) / 4 (thorough) commands, then disconnect; before each command the namespace may be reloaded (what Session.Run does around a command is replayed call by call); one backend connection per slice between reloads, released at disconnect; after a reload an idle client's connections are dropped and a client in a transaction (BEGIN or autocommit=0) is disconnected"
//verif:mock (*github.com/XiaoMi/Gaea/proxy/server.Manager).RecordBackendSQLMetrics vhSessRecordMetrics
func Harness_C23_KeepSession() {
	vhSessRun("C23", true, vs.Pick(3, 4), false)
}

// ---- C39, sharded path: every backend result of a multi-shard statement is delivered ----

//verif:harness prop=C39 bounds="ExecuteSQLs of a sharded statement over two slices with 1..2 physical databases per slice and 1..2 statements per database (scripted pools; each backend answer is a result with 0..2 rows naming its statement); optionally one statement fails: the real getBackendConns + executeShardSQLInSlice return every backend result exactly once, grouped by slice, database and statement order, or an error"
//verif:mock (*github.com/XiaoMi/Gaea/proxy/server.Manager).RecordBackendSQLMetrics vhSessRecordMetrics
func Harness_C39_ShardedResults() {
	s := vhSessSetup(false, false, false)
	fail := vs.Choice("failingStatement", 3) // 0 none, 1 a statement of slice 0, 2 a statement of slice 1
	s.faultOp = ""
	for _, name := range []string{"s0", "s1"} {
		p := s.masters[name]
		p.ExecResult = func(c *backend.VhConn, sql string) (*mysql.Result, error) {
			if (fail == 1 && sql == "q-s0-d0-0") || (fail == 2 && sql == "q-s1-d0-0") {
				return nil, errors.New("backend error")
			}
			n := int(sql[len(sql)-1]-'0') + 1 // 1 or 2 rows, every row names the statement
			r := &mysql.Result{Resultset: &mysql.Resultset{Fields: []*mysql.Field{{Name: []byte("c")}}}}
			for i := 0; i < n; i++ {
				r.Values = append(r.Values, []interface{}{sql})
			}
			return r, nil
		}
	}
	sqls := map[string]map[string][]string{}
	var want []string
	for _, sl := range []string{"s0", "s1"} {
		sqls[sl] = map[string][]string{}
		nd := vs.IntRange("databases", 1, 2)
		for d := 0; d < nd; d++ {
			db := "d" + string('0'+byte(d))
			nq := vs.IntRange("statements", 1, 2)
			for q := 0; q < nq; q++ {
				text := "q-" + sl + "-" + db + "-" + string('0'+byte(q))
				sqls[sl][db] = append(sqls[sl][db], text)
				want = append(want, text)
			}
		}
	}
	s.ns.defaultPhyDBs["d0"], s.ns.defaultPhyDBs["d1"] = "d0", "d1"
	rc := util.NewRequestContext()
	rs, err := s.se.ExecuteSQLs(rc, sqls)
	if fail != 0 {
		vs.Assert(err != nil, "C39/a-failing-shard-statement-fails-the-whole-statement")
		return
	}
	vs.Assert(err == nil, "C39/sharded-statement-succeeds")
	if err != nil {
		return
	}
	vs.Assert(len(rs) == len(want), "C39/one-result-per-backend-statement")
	for i := 0; i < len(want) && i < len(rs); i++ {
		n := int(want[i][len(want[i])-1]-'0') + 1
		ok := rs[i] != nil && rs[i].Resultset != nil && len(rs[i].Values) == n
		for _, row := range rs[i].Values {
			ok = ok && len(row) == 1 && row[0] == interface{}(want[i])
		}
		vs.Assert(ok, "C39/results-in-slice-database-statement-order-with-all-their-rows")
	}
	vs.Cover("C39/sharded-done")
}

// ---- C39, client side: a streamed result reaches the client with every row ----

// vhC39Stream is a backend connection that still has pieces of a large result to deliver.
type vhC39Stream struct {
	*backend.VhConn
	pieces [][]byte // remaining pieces: one digit per row
	fields []*mysql.Field
}

func (c *vhC39Stream) MoreRowsExist() bool { return len(c.pieces) > 0 }
func (c *vhC39Stream) FetchMoreRows(r *mysql.Result, maxRows int) error {
	p := c.pieces[0]
	c.pieces = c.pieces[1:]
	return vhC39Fill(r, p)
}

// vhC39Fill appends one row per digit, as the backend reader does: the text row and the parsed value.
func vhC39Fill(r *mysql.Result, digits []byte) error {
	for _, d := range digits {
		row := mysql.RowData([]byte{1, d})
		r.RowDatas = append(r.RowDatas, row)
		v, err := row.Parse(r.Fields, false)
		if err != nil {
			return err
		}
		r.Values = append(r.Values, v)
	}
	return nil
}

func vhC39NoFlow(s *StatisticManager, namespace string, byteCount int) {}

type vhC39Client struct {
	vhNetConn
	out []byte
}

func (c *vhC39Client) Write(b []byte) (int, error) { c.out = append(c.out, b...); return len(b), nil }

//verif:harness prop=C39 bounds="a streamed unsharded result (first piece of 1..2 rows, then 0..2 further pieces of 1..2 rows fetched with FetchMoreRows; one BIGINT column, every value a symbolic digit) written to the client by the real Session.writeResponse / writeOKResultStream in the text and in the binary protocol; the bytes the client receives are decoded with an independent reader"
//verif:mock (*github.com/XiaoMi/Gaea/proxy/server.StatisticManager).AddWriteFlowCount vhC39NoFlow
func Harness_C39_StreamedToClient() {
	s := vhSessSetup(false, false, false)
	client := &vhC39Client{}
	s.cc.c = &ClientConn{Conn: mysql.NewConn(client), manager: s.cc.manager}
	s.cc.c.hasRecycledReadPacket.Set(false)
	s.cc.c.namespace = "ns"
	isBinary := vs.Choice("binary", 2) == 1
	fields := []*mysql.Field{{Name: []byte("id"), Type: mysql.TypeLonglong, Charset: 63}}
	digit := func() byte {
		d := vs.Byte("digit")
		vs.Assume(d >= '0' && d <= '9')
		return d
	}
	var all []byte
	piece := func() []byte {
		n := vs.IntRange("rows", 1, 2)
		p := make([]byte, n)
		for i := range p {
			p[i] = digit()
		}
		all = append(all, p...)
		return p
	}
	first := piece()
	pc := &vhC39Stream{VhConn: &backend.VhConn{AutoCommit: 1}, fields: fields}
	for i, np := 0, vs.IntRange("morePieces", 0, 2); i < np; i++ {
		pc.pieces = append(pc.pieces, piece())
	}
	rs := &mysql.Result{Resultset: &mysql.Resultset{Fields: fields}}
	vs.Assert(vhC39Fill(rs, first) == nil, "C39/fixture")
	s.cc.continueConn = pc
	err := s.cc.writeResponse(CreateResultResponse(s.se.status, rs, isBinary))
	if err != nil {
		vs.Cover("C39/client-got-an-error")
		return
	}
	if client.out == nil && s.cc.c.Conn != nil {
		s.cc.c.Conn.Flush()
	}
	// independent reader of the client's bytes: column count, column definitions, EOF, rows, EOF
	var packets [][]byte
	for b := client.out; len(b) >= 4; {
		n := int(b[0]) | int(b[1])<<8 | int(b[2])<<16
		if len(b) < 4+n {
			break
		}
		packets = append(packets, b[4:4+n])
		b = b[4+n:]
	}
	isEOF := func(p []byte) bool { return len(p) > 0 && len(p) <= 5 && p[0] == mysql.EOFHeader }
	i := 1 // skip the column count
	for i < len(packets) && !isEOF(packets[i]) {
		i++
	}
	i++
	var got []byte
	for ; i < len(packets) && !isEOF(packets[i]); i++ {
		p := packets[i]
		if isBinary {
			vs.Assert(len(p) == 10 && p[0] == 0, "C39/binary-row-well-formed")
			if len(p) == 10 {
				got = append(got, '0'+p[2])
			}
		} else {
			vs.Assert(len(p) == 2 && p[0] == 1, "C39/text-row-well-formed")
			if len(p) == 2 {
				got = append(got, p[1])
			}
		}
	}
	vs.Assert(i < len(packets), "C39/result-set-terminated")
	vs.Assert(len(got) == len(all), "C39/client-receives-every-row-of-a-streamed-result")
	for k := 0; k < len(all) && k < len(got); k++ {
		vs.Assert(got[k] == all[k], "C39/rows-unchanged-and-in-order")
	}
	vs.Cover("C39/streamed-to-client-done")
}
