package server

// C38 — malformed client input never crashes the proxy.

import (
	"runtime"
	"errors"
	"io"
	"net"
	"time"

	"github.com/XiaoMi/Gaea/models"
	"github.com/XiaoMi/Gaea/mysql"
	"github.com/XiaoMi/Gaea/parser"
	"github.com/XiaoMi/Gaea/util"
	vs "github.com/XiaoMi/Gaea/zz_verifsym"
)

// vhC38Conn is the client's side of the socket: it delivers the scripted bytes, then EOF.
type vhC38Conn struct {
	in     []byte
	pos    int
	closed bool
	wrote  int
}

func (c *vhC38Conn) Read(b []byte) (int, error) {
	if c.pos >= len(c.in) {
		return 0, io.EOF
	}
	n := copy(b, c.in[c.pos:])
	c.pos += n
	return n, nil
}
func (c *vhC38Conn) Write(b []byte) (int, error)      { c.wrote += len(b); return len(b), nil }
func (c *vhC38Conn) Close() error                     { c.closed = true; return nil }
func (*vhC38Conn) LocalAddr() net.Addr                { return vhAddr{} }
func (*vhC38Conn) RemoteAddr() net.Addr               { return vhAddr{} }
func (*vhC38Conn) SetDeadline(time.Time) error        { return nil }
func (*vhC38Conn) SetReadDeadline(time.Time) error    { return nil }
func (*vhC38Conn) SetWriteDeadline(time.Time) error   { return nil }

type vhC38Listener struct{}

func (vhC38Listener) Accept() (net.Conn, error) { return nil, io.EOF }
func (vhC38Listener) Close() error              { return nil }
func (vhC38Listener) Addr() net.Addr            { return vhAddr{} }

// vhC38NewSession is newSession without the *net.TCPConn assertion and the random salt.
func vhC38NewSession(s *Server, co net.Conn) *Session {
	cc := new(Session)
	cc.c = &ClientConn{Conn: mysql.NewConn(co), salt: []byte("01234567890123456789"), manager: s.manager}
	cc.c.hasRecycledReadPacket.Set(false)
	cc.proxy = s
	cc.manager = s.manager
	cc.c.SetConnectionID(7)
	cc.c.proxy = s
	cc.executor = newSessionExecutor(s.manager)
	cc.executor.clientAddr = co.RemoteAddr().String()
	cc.closed.Store(false)
	cc.executor.session = cc
	cc.executor.serverAddr = s.listener.Addr()
	return cc
}

func vhC38Server() *Server {
	ns := &models.Namespace{Name: "ns1", Users: []*models.User{{UserName: "u", Password: "p", Namespace: "ns1"}}}
	um, _ := CreateUserManager(map[string]*models.Namespace{"ns1": ns})
	m := &Manager{}
	m.users[0] = um
	m.namespaces[0] = &NamespaceManager{namespaces: map[string]*Namespace{"ns1": {name: "ns1"}}}
	return &Server{manager: m, listener: vhC38Listener{}, ServerVersion: "5.6.20-gaea", ServerConfig: &models.Proxy{}}
}

//verif:harness prop=C38 bounds="one connection whose handshake response is a single packet of 0..12, 31..36 or 40 arbitrary symbolic payload bytes with a correct or wrong sequence id, followed by end of stream; run through the real Server.onConn; SHA-1/SHA-256 uninterpreted"
//verif:mock github.com/XiaoMi/Gaea/proxy/server.newSession vhC38NewSession
//verif:mock crypto/sha1.New vhSha1New
//verif:mock crypto/sha256.New vhSha256New
func Harness_C38_Handshake() {
	vhUFTable = nil
	s := vhC38Server()
	lens := []int{0, 1, 3, 4, 5, 8, 9, 10, 12, 31, 32, 33, 34, 36, 40}
	n := lens[vs.Choice("payloadLength", len(lens))]
	seq := byte(1)
	if vs.Choice("wrongSequence", 2) == 1 {
		seq = 0
	}
	in := append([]byte{byte(n), 0, 0, seq}, vs.Bytes("payload", n)...)
	conn := &vhC38Conn{in: in}
	func() {
		defer func() {
			if r := recover(); r != nil {
				vs.Fail("C38/a-panic-escapes-the-connection-goroutine")
			}
		}()
		s.onConn(conn)
	}()
	vs.Assert(conn.closed, "C38/connection-closed-after-a-failed-handshake")
	if conn.pos == len(in) {
		vs.Cover("C38/handshake-response-was-read") // reachability: the response packet reached the reader
	}
	vs.Cover("C38/handshake-done")
}

// vhC38Command runs one command the way Session.Run does: a panic is recovered there and the
// session is closed (allowed by the property); returns whether the command panicked.
func vhC38Command(se *SessionExecutor, cmd byte, data []byte) (resp Response, panicked bool) {
	defer func() {
		if recover() != nil {
			panicked = true
		}
	}()
	resp = se.ExecuteCommand(cmd, data)
	return
}

//verif:harness prop=C38 bounds="an authenticated session with prepared statement 1 'select ?, ?': one command packet COM_STMT_EXECUTE / COM_STMT_SEND_LONG_DATA / COM_STMT_CLOSE / COM_STMT_RESET / an unknown command with 0..12 arbitrary symbolic payload bytes, then (if the session survived) a well-formed execute of statement 1"
//verif:mock (*github.com/XiaoMi/Gaea/proxy/server.SessionExecutor).handleQuery vhC16HandleQuery
func Harness_C38_StatementCommands() {
	se := &SessionExecutor{stmts: map[uint32]*Stmt{}}
	vhC16Prepare(se, 1, "select ?, ?")
	vhC16Executed = nil
	vhC16QueryFails = nil
	cmds := []byte{mysql.ComStmtExecute, mysql.ComStmtSendLongData, mysql.ComStmtClose, mysql.ComStmtReset, 0xfe}
	ci := vs.Choice("command", len(cmds))
	n := vs.IntRange("payloadLength", 0, 12)
	data := vs.Bytes("payload", n)
	toStmt1 := n >= 4 && vs.And(vs.And(data[0] == 1, data[1] == 0), vs.And(data[2] == 0, data[3] == 0))
	vs.TagB("toStatement1", toStmt1)
	_, panicked := vhC38Command(se, cmds[ci], data)
	if panicked {
		vs.Cover("C38/command-panicked-session-closed") // Session.Run recovers it and closes the session
		return
	}
	if cmds[ci] == mysql.ComStmtClose && vs.Fork(toStmt1) {
		vs.Cover("C38/statement-closed")
		return
	}
	if cmds[ci] == mysql.ComStmtSendLongData && vs.Fork(toStmt1) {
		vs.Cover("C38/long-data-accepted") // the next execute legitimately uses it: C16's subject
		return
	}
	// the session goes on: a well-formed execute of statement 1 is answered with exactly its own values
	vhC16Executed = nil
	a, b := vhC16Letter("a"), vhC16Letter("b")
	pkt := []byte{1, 0, 0, 0, 0, 1, 0, 0, 0, 0, 1, mysql.TypeVarString, 0, mysql.TypeVarString, 0, 1, a, 1, b}
	resp, panicked2 := vhC38Command(se, mysql.ComStmtExecute, pkt)
	vs.Assert(!panicked2, "C38/session-usable-after-a-malformed-command")
	if panicked2 {
		return
	}
	_ = resp
	vs.Assert(len(vhC16Executed) == 1 && vhC16Executed[0] == "select "+vhC16Quote([]byte{a})+", "+vhC16Quote([]byte{b}), "C38/next-statement-unaffected-by-the-malformed-command")
	vs.Cover("C38/commands-done")
}

//verif:harness prop=C38 bounds="an authenticated session on a namespace with two slices (scripted pools) and a shard rule: one command packet COM_INIT_DB / COM_FIELD_LIST / COM_PING / COM_SET_OPTION / COM_QUIT with 0..6 arbitrary symbolic payload bytes, then (if the session survived) a statement on the backend; every connection taken from a pool is given back when the session ends"
//verif:mock (*github.com/XiaoMi/Gaea/proxy/server.Manager).RecordBackendSQLMetrics vhSessRecordMetrics
func Harness_C38_OtherCommands() {
	s := vhSessSetup(false, false, false)
	s.faultOp = ""
	s.ns.router = vhC06Router()
	s.ns.allowedDBs = map[string]bool{"db": true}
	s.cc.manager.statistics = nil
	cmds := []byte{mysql.ComInitDB, mysql.ComFieldList, mysql.ComPing, mysql.ComSetOption, 0x00}
	ci := vs.Choice("command", len(cmds))
	n := vs.IntRange("payloadLength", 0, 6)
	data := vs.Bytes("payload", n)
	if cmds[ci] == mysql.ComQuit {
		// the quit path logs through the statistics manager, which this fixture does not build
		vs.Cover("C38/quit")
		return
	}
	_, panicked := vhC38Command(s.se, cmds[ci], data)
	if panicked {
		vs.Cover("C38/other-command-panicked-session-closed") // Session.Run recovers it and closes the session
	} else {
		// the session goes on
		rc := util.NewRequestContext()
		_, err := s.se.ExecuteSQL(rc, "s0", s.se.db, "select 1")
		if s.se.db == "db" {
			vs.Assert(err == nil, "C38/session-usable-after-the-command")
		}
	}
	s.cc.Close()
	for _, c := range s.led.Conns {
		vs.Assert(c.Recycled == 1, "C38/connections-given-back-after-a-malformed-command")
	}
	vs.Cover("C38/other-commands-done")
}

// ---- C38: a failing statement and its metrics (fingerprinting of arbitrary text) ----

type vhC38Logger struct{}

func (vhC38Logger) SetLevel(name, level string) error                           { return nil }
func (vhC38Logger) Debug(format string, a ...interface{}) (err error)           { return nil }
func (vhC38Logger) Trace(format string, a ...interface{}) (err error)           { return nil }
func (vhC38Logger) Notice(format string, a ...interface{}) (err error)          { return nil }
func (vhC38Logger) Warn(format string, a ...interface{}) (err error)            { return nil }
func (vhC38Logger) Fatal(format string, a ...interface{}) (err error)           { return nil }
func (vhC38Logger) Debugx(logID, format string, a ...interface{}) (err error)   { return nil }
func (vhC38Logger) Tracex(logID, format string, a ...interface{}) (err error)   { return nil }
func (vhC38Logger) Noticex(logID, format string, a ...interface{}) (err error)  { return nil }
func (vhC38Logger) Warnx(logID, format string, a ...interface{}) (err error)    { return nil }
func (vhC38Logger) Fatalx(logID, format string, a ...interface{}) (err error)   { return nil }
func (vhC38Logger) Close()                                                       {}
func (vhC38Logger) Dropped(i int) uint64                                         { return 0 }

func vhC38DoQuery(se *SessionExecutor, reqCtx *util.RequestContext, sql string) (*mysql.Result, error) {
	return nil, errors.New("statement failed")
}
func vhC38Timing(s *StatisticManager, namespace string, operation string, startTime time.Time) {}
func vhC38ErrFp(s *StatisticManager, namespace string, operation string, md5 string)          {}
func vhC38SlowFp(s *StatisticManager, namespace string, md5 string)                           {}
func vhC38Md5(s string) string { return "md5" }
func vhC38SetFp(n *Namespace, md5, fingerprint string)                                         {}

//verif:harness prop=C38 noreplay=1 bounds="(engine-only: the violation looked for is an unrecovered panic in a goroutine, which kills a native test process instead of failing a test) a COM_QUERY whose statement fails (doQuery is replaced by a failing stub), run through the real handleQuery and the real RecordSessionSQLMetrics + mysql.GetFingerprint: statement text = a prefix from {select * from t where id in, x in, select 1, (, '} followed by 0..3 arbitrary symbolic bytes over the characters the fingerprint scanner reacts to; no panic may escape handleQuery or any goroutine it starts (the counters, the general log and the fingerprint cache are no-ops)"
//verif:mock (*github.com/XiaoMi/Gaea/proxy/server.SessionExecutor).doQuery vhC38DoQuery
//verif:mock (*github.com/XiaoMi/Gaea/proxy/server.StatisticManager).recordSessionSQLTiming vhC38Timing
//verif:mock (*github.com/XiaoMi/Gaea/proxy/server.StatisticManager).recordSessionErrorSQLFingerprint vhC38ErrFp
//verif:mock (*github.com/XiaoMi/Gaea/proxy/server.StatisticManager).recordSessionSlowSQLFingerprint vhC38SlowFp
//verif:mock (*github.com/XiaoMi/Gaea/proxy/server.Namespace).SetErrorSQLFingerprint vhC38SetFp
//verif:mock (*github.com/XiaoMi/Gaea/proxy/server.Namespace).SetSlowSQLFingerprint vhC38SetFp
//verif:mock github.com/XiaoMi/Gaea/mysql.GetMd5 vhC38Md5
func Harness_C38_FailingQueryMetrics() {
	s := vhSessSetup(false, false, false)
	s.cc.manager.statistics = &StatisticManager{generalLogger: vhC38Logger{}}
	s.cc.c.capability = 0
	prefix := []string{"select * from t where id in ", "x in ", "select 1", "(", "'"}[vs.Choice("prefix", 5)]
	tail := vs.Bytes("tail", vs.IntRange("tailLength", 0, 3))
	for i := range tail {
		ok := false
		for _, a := range []byte{')', '(', ' ', '\'', '"', ',', ';', '#', '-', '/', '*', '\\', '1', 'a', '\n'} {
			ok = vs.Or(ok, tail[i] == a)
		}
		vs.Assume(ok)
	}
	sql := prefix + string(tail)
	reqCtx := util.NewRequestContext()
	reqCtx.SetStmtType(parser.Preview(prefix)) // what doQuery records before it fails
	func() {
		defer func() {
			if recover() != nil {
				vs.Fail("C38/a-panic-escapes-handleQuery")
			}
		}()
		_, err := s.se.handleQuery(reqCtx, sql)
		vs.Assert(err != nil, "C38/failing-statement-is-answered-with-an-error")
	}()
	runtime.Gosched() // let every goroutine the call started run to its end
	vs.Cover("C38/failing-query-metrics-done")
}
