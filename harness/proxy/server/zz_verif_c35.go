package server

// C35 — only allow-listed client addresses can connect.

import (
	"fmt"
	"net"

	vs "github.com/XiaoMi/Gaea/zz_verifsym"
)

// An allow-list entry: address bytes and (for CIDR entries) prefix length.
type vhC35Entry struct {
	v4     bool
	cidr   bool
	ip     []byte // 4 or 16 bytes
	prefix int
	text   string
}

// vhC35Table maps the opaque entry texts used under the engine to their entries.
var vhC35Table map[string]*vhC35Entry

// vhC35Text returns the configuration text of an entry.  Natively it is the
// real text ("1.2.3.4/24", "2001:db8::/32"); under the engine it is an opaque
// token resolved by the net.ParseCIDR / net.ParseIP stubs below, which rebuild
// exactly what the standard library returns for well-formed text (16-byte IP,
// masked network address, 4- or 16-byte mask).  The standard parsers are the
// trusted base of this check; ParseIPInfo, parseAllowIps and the matching code
// are executed for real.
func vhC35Text(e *vhC35Entry, k int) string {
	if vs.Symbolic() {
		t := fmt.Sprintf("@entry%d", k)
		if vhC35Table == nil {
			vhC35Table = map[string]*vhC35Entry{}
		}
		vhC35Table[t] = e
		return t
	}
	s := net.IP(e.ip).String()
	if e.cidr {
		s += fmt.Sprintf("/%d", e.prefix)
	}
	return s
}

func vhC35ip16(e *vhC35Entry) net.IP {
	if e.v4 {
		return net.IPv4(e.ip[0], e.ip[1], e.ip[2], e.ip[3])
	}
	r := make(net.IP, 16)
	copy(r, e.ip)
	return r
}

func vhC35ParseCIDR(s string) (net.IP, *net.IPNet, error) {
	e := vhC35Table[s]
	if e == nil || !e.cidr {
		return nil, nil, &net.ParseError{Type: "CIDR address", Text: s}
	}
	bits := 128
	if e.v4 {
		bits = 32
	}
	m := net.CIDRMask(e.prefix, bits)
	ip := vhC35ip16(e)
	return ip, &net.IPNet{IP: ip.Mask(m), Mask: m}, nil
}

func vhC35ParseIP(s string) net.IP {
	e := vhC35Table[s]
	if e == nil || e.cidr {
		return nil
	}
	return vhC35ip16(e)
}

// Non-forking equivalents of the standard library's address predicates (same
// semantics as net.CIDRMask, IP.Equal, IP.To4, IPNet.Contains of Go 1.23; the
// originals return early inside byte loops, which forks one path per byte).
// They are used under the engine only; native replays run the real ones.

func vhC35CIDRMask(ones, bits int) net.IPMask {
	if bits != 32 && bits != 128 {
		return nil
	}
	l := bits / 8
	m := make(net.IPMask, l)
	for i := 0; i < l; i++ {
		m[i] = vhC35MaskByte(ones, i)
	}
	return m
}

func vhC35IsMapped(ip net.IP) bool {
	r := true
	for i := 0; i < 10; i++ {
		r = vs.And(r, ip[i] == 0)
	}
	return vs.And(r, vs.And(ip[10] == 0xff, ip[11] == 0xff))
}

func vhC35To4(ip net.IP) net.IP {
	if len(ip) == 4 {
		return ip
	}
	if len(ip) == 16 && vs.Fork(vhC35IsMapped(ip)) {
		return ip[12:16]
	}
	return nil
}

func vhC35BytesEq(a, b []byte) bool {
	r := true
	for i := range a {
		r = vs.And(r, a[i] == b[i])
	}
	return r
}

func vhC35Equal(ip, x net.IP) bool {
	if len(ip) == len(x) {
		return vhC35BytesEq(ip, x)
	}
	if len(ip) == 4 && len(x) == 16 {
		return vs.And(vhC35IsMapped(x), vhC35BytesEq(ip, x[12:]))
	}
	if len(ip) == 16 && len(x) == 4 {
		return vs.And(vhC35IsMapped(ip), vhC35BytesEq(ip[12:], x))
	}
	return false
}

func vhC35Contains(n *net.IPNet, ip net.IP) bool {
	// networkNumberAndMask
	nn := n.IP
	if x := vhC35To4(nn); x != nil {
		nn = x
	} else if len(nn) != 16 {
		return false
	}
	m := n.Mask
	switch len(m) {
	case 4:
		if len(nn) != 4 {
			return false
		}
	case 16:
		if len(nn) == 4 {
			m = m[12:]
		}
	default:
		return false
	}
	if x := vhC35To4(ip); x != nil {
		ip = x
	}
	if len(ip) != len(nn) {
		return false
	}
	r := true
	for i := 0; i < len(ip); i++ {
		r = vs.And(r, nn[i]&m[i] == ip[i]&m[i])
	}
	return r
}

// vhC35MaskByte is byte i of a prefix mask of the given length (no forking).
func vhC35MaskByte(prefix, i int) byte {
	rem := prefix - 8*i
	full := rem >= 8
	none := rem <= 0
	part := byte(0xff) << uint(8-vs.IteInt(vs.Or(full, none), 8, rem))
	return vs.IteByte(full, 0xff, vs.IteByte(none, 0, part))
}

//verif:harness prop=C35 bounds="0..2 entries (quick) / 0..3 (thorough), each an IPv4 or IPv6 host or CIDR block with symbolic address bytes and symbolic prefix length (0..32 / 0..128); IPv6 entries are not IPv4-mapped; client address: 16-byte form (as produced by net.ParseIP: IPv4 clients are IPv4-mapped) or 4-byte form, symbolic bytes; entry text parsing by the standard library is a stub"
//verif:stub net.ParseCIDR vhC35ParseCIDR
//verif:stub net.ParseIP vhC35ParseIP
//verif:stub net.CIDRMask vhC35CIDRMask
//verif:stub (net.IP).Equal vhC35Equal
//verif:stub (net.IP).To4 vhC35To4
//verif:stub (*net.IPNet).Contains vhC35Contains
func Harness_C35_AllowList() {
	vhC35Table = nil
	n := vs.IntRange("entries", 0, vs.Pick(2, 3))
	entries := make([]*vhC35Entry, n)
	texts := make([]string, n)
	for k := 0; k < n; k++ {
		e := &vhC35Entry{v4: vs.Choice("v4", 2) == 1, cidr: vs.Choice("cidr", 2) == 1}
		if e.v4 {
			e.ip = vs.Bytes("ip", 4)
			if e.cidr {
				e.prefix = vs.SymRange("prefix", 0, 32)
			}
		} else {
			e.ip = vs.Bytes("ip", 16)
			// not an IPv4-mapped address (those are written in dotted form)
			mapped := true
			for i := 0; i < 10; i++ {
				mapped = vs.And(mapped, e.ip[i] == 0)
			}
			mapped = vs.And(mapped, vs.And(e.ip[10] == 0xff, e.ip[11] == 0xff))
			vs.Assume(!mapped)
			if e.cidr {
				e.prefix = vs.SymRange("prefix", 0, 128)
			}
		}
		entries[k] = e
		texts[k] = vhC35Text(e, k)
	}
	allow, err := parseAllowIps(texts)
	vs.Assert(err == nil && len(allow) == n, "C35/entries-parse")
	ns := &Namespace{name: "ns", allowips: allow}

	// client
	var client net.IP
	var c16 []byte
	if vs.Choice("client16", 2) == 1 {
		c16 = vs.Bytes("client", 16)
		client = net.IP(c16)
	} else {
		c4 := vs.Bytes("client", 4)
		client = net.IP(c4)
		c16 = []byte{0, 0, 0, 0, 0, 0, 0, 0, 0, 0, 0xff, 0xff, c4[0], c4[1], c4[2], c4[3]}
	}

	got := ns.IsClientIPAllowed(client)

	// reference: prefix match on the 128-bit form
	clientV4 := true
	for i := 0; i < 10; i++ {
		clientV4 = vs.And(clientV4, c16[i] == 0)
	}
	clientV4 = vs.And(clientV4, vs.And(c16[10] == 0xff, c16[11] == 0xff))
	want := n == 0
	for _, e := range entries {
		m := true
		if e.v4 {
			m = clientV4
			for i := 0; i < 4; i++ {
				mb := byte(0xff)
				if e.cidr {
					mb = vhC35MaskByte(e.prefix, i)
				}
				m = vs.And(m, c16[12+i]&mb == e.ip[i]&mb)
			}
		} else {
			m = !clientV4
			for i := 0; i < 16; i++ {
				mb := byte(0xff)
				if e.cidr {
					mb = vhC35MaskByte(e.prefix, i)
				}
				m = vs.And(m, c16[i]&mb == e.ip[i]&mb)
			}
		}
		want = vs.Or(want, m)
	}
	vs.Assert(got == want, "C35/allowed-iff-listed")
	if got {
		vs.Cover("C35/allowed")
	} else {
		vs.Cover("C35/denied")
	}
}
