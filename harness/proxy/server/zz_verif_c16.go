package server

// C16 — prepared statements are isolated and never reuse stale parameters.

import (
	"errors"

	"github.com/XiaoMi/Gaea/mysql"
	"github.com/XiaoMi/Gaea/util"
	vs "github.com/XiaoMi/Gaea/zz_verifsym"
)

// handleQuery is replaced by a recorder: the statement text that would be executed is the
// observation; the backend's answer (success or failure) is nondeterministic.
var vhC16Executed []string
var vhC16QueryFails func() bool

func vhC16HandleQuery(se *SessionExecutor, reqCtx *util.RequestContext, sql string) (*mysql.Result, error) {
	vhC16Executed = append(vhC16Executed, sql)
	if vhC16QueryFails != nil && vhC16QueryFails() {
		return nil, errors.New("backend error")
	}
	return &mysql.Result{}, nil
}

func vhC16Prepare(se *SessionExecutor, id uint32, sql string) *Stmt {
	s := &Stmt{id: id, sql: sql}
	s.paramCount, s.offsets, s.sqlItems, _ = CalcParams(sql)
	s.ResetParams()
	se.stmts[id] = s
	return s
}

// vhC16Letter: a symbolic lower-case letter (values that need no escaping: escaping is C15's subject)
func vhC16Letter(name string) byte {
	b := vs.Byte(name)
	vs.Assume(vs.And(b >= 'a', b <= 'z'))
	return b
}

// reference rendering of a bound string value (escaping itself is C15's subject)
func vhC16Quote(v []byte) string {
	out := []byte{'\''}
	for _, c := range v {
		if c == '\\' || c == '\'' {
			out = append(out, '\\')
		}
		out = append(out, c)
	}
	return string(append(out, '\''))
}

//verif:mock (*github.com/XiaoMi/Gaea/proxy/server.SessionExecutor).handleQuery vhC16HandleQuery
//verif:harness prop=C16 maxpaths=4000000 timeout=2400 bounds="session with statement 1 'select ?, ?' and statement 2 'select ?'; every sequence of k=3 (quick) / 4 (thorough) commands from {execute(stmt 1: two string values of one symbolic letter or NULL, new-params-bound flag 1), execute without types (flag 0), execute truncated after the null bitmap / after the types (with long data pending: an execute with an unknown type code instead), send_long_data(stmt 1, param 0|1, one symbolic letter), send_long_data(stmt 2), reset(stmt 1), execute(stmt 9 unknown)}; the backend answer to each executed query may be an error"
func Harness_C16_CommandSequences() {
	se := &SessionExecutor{stmts: map[uint32]*Stmt{}}
	s1 := vhC16Prepare(se, 1, "select ?, ?")
	s2 := vhC16Prepare(se, 2, "select ?")
	vhC16Executed = nil
	vhC16QueryFails = func() bool { return vs.Bool("queryFails") }
	long := [2][]byte{} // long data sent for statement 1 since its last execute/reset
	var long2 []byte
	haveTypes := false
	k := vs.Pick(3, 4)
	for step := 0; step < k; step++ {
		switch vs.Choice("command", 8) {
		case 0, 1: // well-formed execute of statement 1 (1: without the types block)
			withTypes := vs.Choice("withTypes", 2) == 1
			null0, null1 := vs.Choice("null0", 2) == 1, vs.Choice("null1", 2) == 1
			v0, v1 := vhC16Letter("v0"), vhC16Letter("v1")
			pkt := []byte{1, 0, 0, 0, 0, 1, 0, 0, 0}
			bitmap := byte(0)
			if null0 {
				bitmap |= 1
			}
			if null1 {
				bitmap |= 2
			}
			pkt = append(pkt, bitmap)
			if withTypes {
				pkt = append(pkt, 1, mysql.TypeVarString, 0, mysql.TypeVarString, 0)
			} else {
				pkt = append(pkt, 0)
			}
			// values of the parameters that are neither NULL nor supplied as long data
			if !null0 && long[0] == nil {
				pkt = append(pkt, 1, v0)
			}
			if !null1 && long[1] == nil {
				pkt = append(pkt, 1, v1)
			}
			if !withTypes && !haveTypes {
				// a first execute without types is the client's error; not a case of this property
				continue
			}
			before := len(vhC16Executed)
			_, err := se.handleStmtExecute(util.NewRequestContext(), pkt)
			_ = err
			if withTypes {
				haveTypes = true
			}
			if len(vhC16Executed) > before {
				want := "select "
				for i, spec := range []struct {
					null bool
					v    byte
				}{{null0, v0}, {null1, v1}} {
					if i > 0 {
						want += ", "
					}
					switch {
					case spec.null:
						want += "NULL"
					case long[i] != nil:
						want += vhC16Quote(long[i])
					default:
						want += vhC16Quote([]byte{spec.v})
					}
				}
				vs.Assert(vhC16Executed[len(vhC16Executed)-1] == want, "C16/execution-uses-exactly-this-execution's-values")
				vs.Cover("C16/executed")
			}
			long = [2][]byte{}
			for i := range s1.args {
				vs.Assert(s1.args[i] == nil, "C16/no-bound-value-left-after-an-execution")
			}
		case 2: // execute truncated (malformed packet)
			if long[0] != nil || long[1] != nil {
				// with long data pending a short packet may be complete; a packet that is malformed
				// whatever is pending: an unknown type code for the parameter without long data
				if long[0] != nil && long[1] != nil {
					continue
				}
				bad := 0
				if long[0] != nil {
					bad = 1
				}
				types := []byte{mysql.TypeVarString, 0, mysql.TypeVarString, 0}
				types[2*bad] = 0xf0
				pkt := append([]byte{1, 0, 0, 0, 0, 1, 0, 0, 0, 0, 1}, types...)
				pkt = append(pkt, 1, vhC16Letter("v0"))
				before := len(vhC16Executed)
				_, err := se.handleStmtExecute(util.NewRequestContext(), pkt)
				vs.Assert(err != nil && len(vhC16Executed) == before, "C16/malformed-execute-fails-without-running")
				long = [2][]byte{}
				for i := range s1.args {
					vs.Assert(s1.args[i] == nil, "C16/failed-execution-leaves-no-bound-value")
				}
				haveTypes = true
				continue
			}
			pkt := []byte{1, 0, 0, 0, 0, 1, 0, 0, 0, 0}
			if vs.Choice("cut", 2) == 1 {
				pkt = append(pkt, 1, mysql.TypeVarString, 0, mysql.TypeVarString, 0, 1) // length byte without the value
				pkt = append(pkt, vhC16Letter("v0"))                                   // first value present, second missing
			}
			before := len(vhC16Executed)
			_, err := se.handleStmtExecute(util.NewRequestContext(), pkt)
			vs.Assert(err != nil && len(vhC16Executed) == before, "C16/malformed-execute-fails-without-running")
			// a failed execution leaves no bound value behind (long data is consumed by the attempt)
			long = [2][]byte{}
			for i := range s1.args {
				vs.Assert(s1.args[i] == nil, "C16/failed-execution-leaves-no-bound-value")
			}
		case 3, 4: // long data for statement 1
			p := vs.Choice("param", 2)
			b := vhC16Letter("chunk")
			err := se.handleStmtSendLongData([]byte{1, 0, 0, 0, byte(p), 0, b})
			vs.Assert(err == nil, "C16/long-data-accepted")
			long[p] = append(append([]byte(nil), long[p]...), b)
		case 5: // long data for statement 2 must not touch statement 1
			b := vhC16Letter("chunk2")
			err := se.handleStmtSendLongData([]byte{2, 0, 0, 0, 0, 0, b})
			vs.Assert(err == nil, "C16/long-data-accepted")
			long2 = append(append([]byte(nil), long2...), b)
		case 6: // reset statement 1
			err := se.handleStmtReset([]byte{1, 0, 0, 0})
			vs.Assert(err == nil, "C16/reset-ok")
			long = [2][]byte{}
		case 7: // unknown statement id
			_, err := se.handleStmtExecute(util.NewRequestContext(), []byte{9, 0, 0, 0, 0, 1, 0, 0, 0, 0})
			vs.Assert(err != nil, "C16/unknown-id-fails")
			vs.Assert(se.handleStmtSendLongData([]byte{9, 0, 0, 0, 0, 0, 1}) != nil, "C16/unknown-id-fails")
			vs.Assert(se.handleStmtReset([]byte{9, 0, 0, 0}) != nil, "C16/unknown-id-fails")
		}
		// isolation: statement 2 holds exactly its own long data
		if long2 == nil {
			vs.Assert(s2.args[0] == nil, "C16/statements-do-not-see-each-other's-values")
		} else {
			got, ok := s2.args[0].([]byte)
			vs.Assert(ok && string(got) == string(long2), "C16/statements-do-not-see-each-other's-values")
		}
	}
	vs.Cover("C16/done")
}
