package server

// C14 — prepared-statement parameters are exactly the SQL grammar's placeholders.

import (
	"github.com/XiaoMi/Gaea/parser"
	"github.com/XiaoMi/Gaea/parser/ast"
	vs "github.com/XiaoMi/Gaea/zz_verifsym"
)

// vhC14Ref: positions of parameter markers per MySQL's lexical rules (default sql_mode):
// strings '..' and "..", with backslash escapes and doubled quotes; quoted identifiers `..`
// (doubled backquote); comments '-- x' (to end of line), '#' (to end of line) and /* .. */.
// ok=false when a string, identifier or block comment is left open.
func vhC14Ref(s []byte) (offsets []int, ok bool) {
	i, n := 0, len(s)
	for i < n {
		c := s[i]
		switch {
		case c == '\'' || c == '"' || c == '`':
			q := c
			i++
			closed := false
			for i < n {
				if s[i] == '\\' && q != '`' {
					i += 2
					continue
				}
				if s[i] == q {
					if i+1 < n && s[i+1] == q {
						i += 2
						continue
					}
					closed = true
					i++
					break
				}
				i++
			}
			if !closed {
				return offsets, false
			}
		case c == '#':
			for i < n && s[i] != '\n' {
				i++
			}
		case c == '-' && i+2 < n && s[i+1] == '-' && (s[i+2] == ' ' || s[i+2] == '\n' || s[i+2] == '\t'):
			for i < n && s[i] != '\n' {
				i++
			}
		case c == '/' && i+1 < n && s[i+1] == '*':
			i += 2
			closed := false
			for i+1 < n {
				if s[i] == '*' && s[i+1] == '/' {
					closed = true
					i += 2
					break
				}
				i++
			}
			if !closed {
				return offsets, false
			}
		case c == '?':
			offsets = append(offsets, i)
			i++
		default:
			i++
		}
	}
	return offsets, true
}

// vhC14Piece: 2 symbolic bytes over the alphabet that matters to the scanner.
func vhC14Piece(name string) []byte {
	b := vs.Bytes(name, 2)
	for i := range b {
		ok := false
		for _, a := range []byte{'?', '\'', '"', '`', '\\', 'a', '*', '/', '\n'} {
			ok = vs.Or(ok, b[i] == a)
		}
		vs.Assume(ok)
	}
	return b
}

// natively (replay) the reference itself is confirmed against the real SQL parser
// whenever the text parses: a disagreement means the reference is wrong, and the
// replay is discarded instead of being reported.
func vhC14ConfirmRef(sql string, want []int) {
	if vs.Symbolic() {
		return
	}
	stmt, err := parser.New().ParseOneStmt(sql, "", "")
	if err != nil {
		return
	}
	v := &vhC14Counter{}
	stmt.Accept(v)
	vs.Assume(v.n == len(want))
}

type vhC14Counter struct{ n int }

func (v *vhC14Counter) Enter(n ast.Node) (ast.Node, bool) {
	if _, ok := n.(ast.ParamMarkerExpr); ok {
		v.n++
	}
	return n, false
}
func (v *vhC14Counter) Leave(n ast.Node) (ast.Node, bool) { return n, true }

//verif:harness prop=C14 bounds="statement 'select I1,I2 T' with each item I one of ?, 'S', \"S\", `S`, 1/*S*/ and the tail T one of empty, ' -- S\\n', ' #S\\n'; one item carries S = 2 symbolic bytes over {? ' \" ` \\ a * / newline}, the other pieces are the text a?"
func Harness_C14_CalcParams() {
	text := []byte("select ")
	usesBacktick, usesComment := false, false
	hot := vs.Choice("hotItem", 2) // which of the two items carries the symbolic piece
	for k := 0; k < 2; k++ {
		if k > 0 {
			text = append(text, ',')
		}
		piece := []byte("a?")
		if k == hot {
			piece = vhC14Piece("S")
		}
		kind := vs.Choice("item", 5)
		if k == hot && kind == 0 {
			kind = 1 + vs.Choice("hotKind", 4)
		}
		switch kind {
		case 0:
			text = append(text, '?')
		case 1:
			text = append(append(append(text, '\''), piece...), '\'')
		case 2:
			text = append(append(append(text, '"'), piece...), '"')
		case 3:
			usesBacktick = true
			text = append(append(append(text, '`'), piece...), '`')
		case 4:
			usesComment = true
			text = append(append(append(text, '1', '/', '*'), piece...), '*', '/')
		}
	}
	switch vs.Choice("tail", 3) {
	case 1:
		usesComment = true
		text = append(text, []byte(" -- a?\n")...)
	case 2:
		usesComment = true
		text = append(text, []byte(" #a?\n")...)
	}
	hasBackslash, hasBacktick, hasCommentStart := false, false, false
	for i := range text {
		hasBackslash = vs.Or(hasBackslash, text[i] == '\\')
		hasBacktick = vs.Or(hasBacktick, text[i] == '`')
		hasCommentStart = vs.Or(hasCommentStart, vs.Or(text[i] == '/', text[i] == '*'))
	}
	// a backslash that escapes a quote character (odd position in its run of backslashes)
	bsQuote, odd := false, false
	for i := 0; i+1 < len(text); i++ {
		odd = vs.And(text[i] == '\\', !odd)
		bsQuote = vs.Or(bsQuote, vs.And(odd, vs.Or(text[i+1] == '\'', text[i+1] == '"')))
	}
	vs.TagB("bsQuote", bsQuote)
	vs.TagB("hasBackslash", hasBackslash)
	vs.TagB("hasBacktick", vs.Or(hasBacktick, usesBacktick))
	vs.TagB("hasComment", vs.Or(usesComment, hasCommentStart))

	sql := string(text)
	count, offsets, _, err := CalcParams(sql)
	want, ok := vhC14Ref(text)
	vhC14ConfirmRef(sql, want)
	if !ok {
		vs.Assert(err != nil, "C14/unterminated-text-rejected")
		vs.Cover("C14/unterminated")
		return
	}
	vs.Assert(err == nil, "C14/well-formed-text-accepted")
	vs.Assert(count == len(want) && len(offsets) == len(want), "C14/parameter-count-equals-placeholders")
	for i := range want {
		if i < len(offsets) {
			vs.Assert(offsets[i] == want[i], "C14/parameter-positions-equal-placeholders")
		}
	}
	vs.Cover("C14/done")
}
