package server

// C29 — credentials authenticate into exactly their own namespace, across reloads.

import (
	"github.com/XiaoMi/Gaea/models"
	vs "github.com/XiaoMi/Gaea/zz_verifsym"
)

type vhC29Cred struct {
	ns, user, pass string
}

// vhC29Str returns a symbolic string of length 1..maxLen over the alphabet {a, b, ':', '*'}.
func vhC29Str(name string, maxLen int) string {
	n := vs.IntRange(name+".len", 1, maxLen)
	b := vs.Bytes(name, n)
	for i := range b {
		vs.Assume(vs.Or(vs.Or(b[i] == 'a', b[i] == 'b'), vs.Or(b[i] == ':', b[i] == '*')))
	}
	return string(b)
}

func vhC29Namespace(name string, creds []vhC29Cred) *models.Namespace {
	ns := &models.Namespace{Name: name}
	for _, c := range creds {
		if c.ns == name {
			ns.Users = append(ns.Users, &models.User{UserName: c.user, Password: c.pass, Namespace: name})
		}
	}
	return ns
}

// After any of: reload of one namespace with new users, deletion of one namespace,
// clone of the manager — the set of (user, password) pairs that authenticate, and the
// namespace each is bound to, is exactly the configured set.
//
//verif:harness prop=C29 bounds="2 namespaces with 1..2 users each; user names 1 byte, passwords 1..2 bytes over {a,b,':','*'} (symbolic); (user,password) pairs pairwise distinct; one operation: reload ns1 with 1 new user / delete ns1 / clone; probes: every configured pair and one arbitrary pair"
func Harness_C29_ReloadDelete() {
	var creds []vhC29Cred
	n1 := vs.IntRange("n1", 1, 2)
	n2 := vs.IntRange("n2", 1, 2)
	for i := 0; i < n1; i++ {
		creds = append(creds, vhC29Cred{"ns1", vhC29Str("user", 1), vhC29Str("pass", 2)})
	}
	for i := 0; i < n2; i++ {
		creds = append(creds, vhC29Cred{"ns2", vhC29Str("user", 1), vhC29Str("pass", 2)})
	}
	// the control plane rejects duplicate (user, password) pairs
	for i := range creds {
		for j := 0; j < i; j++ {
			vs.Assume(!(creds[i].user == creds[j].user && creds[i].pass == creds[j].pass))
		}
	}
	um, err := CreateUserManager(map[string]*models.Namespace{
		"ns1": vhC29Namespace("ns1", creds),
		"ns2": vhC29Namespace("ns2", creds),
	})
	vs.Assert(err == nil, "C29/create")

	// one operation
	var after []vhC29Cred
	switch vs.Choice("op", 3) {
	case 0: // reload ns1 with one (possibly different) user
		nc := vhC29Cred{"ns1", vhC29Str("newuser", 1), vhC29Str("newpass", 2)}
		for _, c := range creds {
			if c.ns == "ns2" {
				after = append(after, c)
				vs.Assume(!(c.user == nc.user && c.pass == nc.pass))
			}
		}
		after = append(after, nc)
		um.RebuildNamespaceUsers(vhC29Namespace("ns1", after))
	case 1: // delete ns1
		for _, c := range creds {
			if c.ns == "ns2" {
				after = append(after, c)
			}
		}
		um.ClearNamespaceUsers("ns1")
	case 2:
		after = creds
		um = CloneUserManager(um)
	}

	// probes
	check := func(user, pass string, label string) {
		wantNS := ""
		userKnown := false
		for _, c := range after {
			if c.user == user {
				userKnown = true
				if c.pass == pass {
					wantNS = c.ns
				}
			}
		}
		vs.Assert(um.CheckUser(user) == userKnown, "C29/user-known-iff-configured")
		vs.Assert(um.GetNamespaceByUser(user, pass) == wantNS, "C29/pair-binds-to-exactly-its-namespace")
		// the password list of the user is exactly the configured one
		cnt := 0
		for _, p := range um.users[user] {
			if p == pass {
				cnt++
			}
		}
		want := 0
		if wantNS != "" {
			want = 1
		}
		vs.Assert(cnt == want, "C29/password-accepted-iff-pair-configured")
	}
	for _, c := range creds {
		check(c.user, c.pass, "configured")
	}
	check(vhC29Str("probeUser", 1), vhC29Str("probePass", 2), "arbitrary")
	vs.Cover("C29/done")
}

//verif:harness prop=C29 bounds="user name and password: every string of 0..2 bytes (all byte values), two pairs"
func Harness_C29_KeyInjective() {
	u1 := string(vs.Bytes("u1", vs.IntRange("u1.len", 0, 2)))
	p1 := string(vs.Bytes("p1", vs.IntRange("p1.len", 0, 2)))
	u2 := string(vs.Bytes("u2", vs.IntRange("u2.len", 0, 2)))
	p2 := string(vs.Bytes("p2", vs.IntRange("p2.len", 0, 2)))
	if getUserKey(u1, p1) == getUserKey(u2, p2) {
		vs.Assert(u1 == u2 && p1 == p2, "C29/key-injective")
	}
	vs.Cover("C29/key/done")
}
