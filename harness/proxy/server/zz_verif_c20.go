package server

// C20 — session settings never leak between clients sharing pooled connections.

import (
	"io"
	"net"
	"strings"
	"time"

	"github.com/XiaoMi/Gaea/backend"
	"github.com/XiaoMi/Gaea/mysql"
	vs "github.com/XiaoMi/Gaea/zz_verifsym"
)

// vhC20Backend plays a MySQL session on the other side of the socket: it applies SET statements
// (all assignments or, when it rejects the statement, none), and records its settings when it
// executes any other statement.
type vhC20Backend struct {
	in      []byte
	out     []byte
	vars    map[string]string // non-default session settings
	charset string
	reject  func(sql string) bool
	seen    []map[string]string // settings in force at each executed statement
	sets    int
	lost    map[string]bool // variables whose reset to DEFAULT was part of a rejected SET
}

func (b *vhC20Backend) Write(p []byte) (int, error) {
	b.in = append(b.in, p...)
	for len(b.in) >= 4 {
		n := int(b.in[0]) | int(b.in[1])<<8 | int(b.in[2])<<16
		if len(b.in) < 4+n {
			break
		}
		payload := b.in[4 : 4+n]
		b.in = b.in[4+n:]
		if len(payload) > 0 && payload[0] == mysql.ComQuery {
			b.query(string(payload[1:]))
		}
	}
	return len(p), nil
}

func (b *vhC20Backend) reply(p []byte) {
	b.out = append(b.out, byte(len(p)), 0, 0, 1)
	b.out = append(b.out, p...)
}

func (b *vhC20Backend) query(sql string) {
	if !strings.HasPrefix(sql, "SET ") {
		snap := map[string]string{"charset": b.charset}
		for k, v := range b.vars {
			snap[k] = v
		}
		b.seen = append(b.seen, snap)
		b.reply([]byte{0, 0, 0, 2, 0, 0, 0})
		return
	}
	b.sets++
	bogus := strings.Contains(sql, "BOGUS")
	if bogus || (b.reject != nil && b.reject(sql)) {
		for _, a := range strings.Split(sql[4:], ",") {
			if kv := strings.SplitN(strings.TrimSpace(a), " = ", 2); len(kv) == 2 && (kv[1] == "DEFAULT" || kv[1] == "NULL") {
				b.lost[kv[0]] = true
			}
		}
		msg := "Variable 'x' can't be set to the value of 'y'"
		if bogus {
			msg = "Variable 'sql_mode' can't be set to the value of 'BOGUS'"
		}
		b.reply(append([]byte{0xff, 0xcf, 0x04, '#', '4', '2', '0', '0', '0'}, msg...)) // 1231
		return
	}
	for _, a := range strings.Split(sql[4:], ",") {
		a = strings.TrimSpace(a)
		if strings.HasPrefix(a, "NAMES ") {
			f := strings.Split(a, "'")
			if len(f) > 1 {
				b.charset = f[1]
			}
			continue
		}
		kv := strings.SplitN(a, " = ", 2)
		if len(kv) != 2 {
			continue
		}
		if kv[1] == "DEFAULT" || kv[1] == "NULL" {
			delete(b.vars, kv[0])
		} else {
			b.vars[kv[0]] = strings.Trim(kv[1], "'")
		}
	}
	b.reply([]byte{0, 0, 0, 2, 0, 0, 0})
}

func (b *vhC20Backend) Read(p []byte) (int, error) {
	if len(b.out) == 0 {
		return 0, io.EOF
	}
	n := copy(p, b.out)
	b.out = b.out[n:]
	return n, nil
}
func (*vhC20Backend) Close() error                     { return nil }
func (*vhC20Backend) LocalAddr() net.Addr              { return vhAddr{} }
func (*vhC20Backend) RemoteAddr() net.Addr             { return vhAddr{} }
func (*vhC20Backend) SetDeadline(time.Time) error      { return nil }
func (*vhC20Backend) SetReadDeadline(time.Time) error  { return nil }
func (*vhC20Backend) SetWriteDeadline(time.Time) error { return nil }

//verif:harness prop=C20 maxpaths=1500000 bounds="two clients sharing one pooled backend connection (a real DirectConnection talking to a modelled MySQL session); k=3 (quick) / 4 (thorough) steps, each: a client changes one of its settings (sql_select_limit or group_concat_max_len to 1 or 2, back to default, character set utf8mb4 / latin1, sql_mode to an invalid value) and runs a statement through the real InitializeSessionVariables + Execute; the backend may reject any SET statement; after a rejected SET the client's variables are reset as the proxy does and the statement is reported failed"
func Harness_C20_SharedConnection() {
	be := &vhC20Backend{vars: map[string]string{}, charset: "utf8mb4", lost: map[string]bool{}}
	be.reject = func(sql string) bool { return vs.Choice("backendRejectsSet", 2) == 1 }
	pc := backend.VhNewPooledDirect(be)
	type client struct {
		vars    *mysql.SessionVariables
		charset string
		want    map[string]string
	}
	clients := []*client{
		{vars: mysql.NewSessionVariables(), charset: "utf8mb4", want: map[string]string{}},
		{vars: mysql.NewSessionVariables(), charset: "utf8mb4", want: map[string]string{}},
	}
	names := []string{"sql_select_limit", "group_concat_max_len"}
	rejected := false
	var rejectedSettings map[string]string // the settings of the statement whose SET was rejected last
	for step := 0; step < vs.Pick(3, 4); step++ {
		ci := 0
		if step > 0 { // the two clients are interchangeable: the first step is client 0's
			ci = vs.Choice("client", 2)
		}
		c := clients[ci]
		switch a := vs.Choice("change", 8); {
		case a < 4: // SET name = 1 | 2
			v := int64(1 + a%2)
			vs.Assert(c.vars.Set(names[a/2], v) == nil, "C20/fixture")
			c.want[names[a/2]] = string('0' + byte(v))
		case a < 6: // SET name = DEFAULT
			c.vars.Delete(names[a-4])
			delete(c.want, names[a-4])
		case a == 7: // SET sql_mode = an invalid value (the backend rejects it with error 1231)
			vs.Assert(c.vars.Set("sql_mode", "BOGUS") == nil, "C20/fixture")
			c.want["sql_mode"] = "BOGUS"
		case a == 6: // SET NAMES
			if c.charset == "utf8mb4" {
				c.charset = "latin1"
			} else {
				c.charset = "utf8mb4"
			}
		}
		// the client's statement, on the shared pooled connection
		before, setsBefore := len(be.seen), be.sets
		err := InitializeSessionVariables(pc, c.charset, 0, c.vars)
		if err != nil {
			rejected = true
			rejectedSettings = map[string]string{"charset": c.charset}
			for k, v := range c.want {
				rejectedSettings[k] = v
			}
			delete(c.want, "sql_mode") // the proxy drops an invalid sql_mode from the client's variables
			// the proxy has reset the client's variables: everything not on the allow list is dropped
			// (both names used here are on it)
			continue
		}
		_, err = pc.Execute("select 1", 0)
		vs.Assert(err == nil && len(be.seen) == before+1, "C20/statement-executed")
		if len(be.seen) != before+1 {
			return
		}
		got := be.seen[before]
		// known finding: after a rejected SET the connection's record is ahead of the backend, so a
		// statement whose settings equal the record is sent without any SET
		sameAsRejected := rejected && rejectedSettings["charset"] == c.charset && len(rejectedSettings) == len(c.want)+1
		for k, v := range c.want {
			sameAsRejected = sameAsRejected && rejectedSettings[k] == v
		}
		vs.TagB("noSetSentAfterARejectedSet", rejected && be.sets == setsBefore && sameAsRejected)
		vs.Assert(got["charset"] == c.charset, "C20/statement-runs-with-the-client's-character-set")
		for _, n := range names {
			w, set := c.want[n]
			g, has := got[n]
			// known finding, second form: a reset to DEFAULT that was part of a rejected SET is forgotten
			vs.TagB("resetLostInARejectedSet", be.lost[n])
			vs.Assert(set || !has, "C20/no-setting-of-another-client-is-left-on-the-connection")
			vs.Assert(!set || (has && w == g), "C20/statement-runs-with-the-client's-session-variables")
		}
	}
	vs.Cover("C20/done")
}
