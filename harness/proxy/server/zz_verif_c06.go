package server

// C06 — the fast unsharded path never bypasses sharding.

import (
	"strings"

	"github.com/XiaoMi/Gaea/models"
	"github.com/XiaoMi/Gaea/parser"
	"github.com/XiaoMi/Gaea/proxy/plan"
	"github.com/XiaoMi/Gaea/proxy/router"
	"github.com/XiaoMi/Gaea/util"
	vs "github.com/XiaoMi/Gaea/zz_verifsym"
)

func vhC06Router() *router.Router {
	sl := func(name string) *models.Slice {
		return &models.Slice{Name: name, UserName: "u", Password: "p", Master: "127.0.0.1:3306", Capacity: 1, MaxCapacity: 1}
	}
	ns := &models.Namespace{
		Name: "ns", AllowedDBS: map[string]bool{"db": true},
		Users:        []*models.User{{UserName: "u", Password: "p", Namespace: "ns", RWFlag: models.ReadWrite, RWSplit: models.ReadWriteSplit}},
		Slices:       []*models.Slice{sl("s0"), sl("s1")},
		DefaultSlice: "s0",
		ShardRules: []*models.Shard{
			{DB: "db", Table: "sh", Type: models.ShardHash, Key: "id", Locations: []int{1, 1}, Slices: []string{"s0", "s1"}},
			{DB: "db", Table: "lk", Type: models.ShardLinked, Key: "sid", ParentTable: "sh"},
			{DB: "db", Table: "gl", Type: models.ShardGlobal, Locations: []int{1, 1}, Slices: []string{"s0", "s1"}},
		},
	}
	rt, err := router.NewRouter(ns)
	if err != nil {
		panic(err)
	}
	return rt
}

// vhC06Name spells a table name: plain, upper-case, back-quoted, schema-qualified, both.
func vhC06Name(t string, form int) string {
	switch form {
	case 1:
		return strings.ToUpper(t)
	case 2:
		return "`" + t + "`"
	case 3:
		return "db." + t
	case 4:
		return "`db`.`" + t + "`"
	}
	return t
}

//verif:harness prop=C06 bounds="statement texts from 26 templates (single table, comma join, JOIN, subquery in FROM / WHERE / SET, INSERT / REPLACE with and without column list, INSERT ... SELECT, multi-table UPDATE, DELETE, comment or line break next to the name, the name occurring first inside a longer identifier) over the tables sh (sharded), lk (linked), gl (global), un (unsharded); the sharded-side name in five spellings (plain, upper case, back-quoted, db-qualified, both); session with and without a current database; the oracle is the proxy's own full analysis (real parser + plan.Checker)"
func Harness_C06_FastPath() {
	rt := vhC06Router()
	ns := &Namespace{name: "ns", router: rt, defaultPhyDBs: map[string]string{}}
	se := &SessionExecutor{user: "u", namespace: "ns", contextNamespace: ns}
	raw := []string{"sh", "lk", "gl", "un"}[vs.Choice("table", 4)]
	x := vhC06Name(raw, vs.Choice("spelling", 5))
	templates := []string{
		"select * from X where id = 1",
		"select * from un, X where un.id = X.id",
		"select * from un,X",
		"select * from un join X on un.id = X.id",
		"select * from un a left join X b on a.id = b.id",
		"select * from un where id in (select id from X)",
		"select * from (select * from X) t",
		"select (select max(id) from X) from un",
		"select * from/*c*/X",
		"select * from\nX where id = 1",
		"select * from un union select * from X",
		"delete from X where id = 1",
		"delete from un where id in (select id from X)",
		"insert into X (id, a) values (1, 2)",
		"insert into X(id, a) values (1, 2)",
		"insert into X values (1, 2)",
		"replace into X (id, a) values (1, 2)",
		"insert into un (id, a) select id, a from X",
		"update X set a = 1 where id = 1",
		"update un, X set un.a = 1 where un.id = X.id",
		"update un set a = (select max(a) from X)",
		"update un join X on un.id = X.id set un.a = 1",
		// the table's name first occurs inside a longer identifier
		"select Y_id from X where id = 1",
		"select * from Y_bak, X where Y_bak.id = 1",
		"select Y_cnt from un where id in (select id from X)",
		"update Y_bak set a = (select max(a) from X)",
	}
	ti := vs.Choice("template", len(templates))
	sql := strings.Replace(strings.Replace(templates[ti], "X", x, -1), "Y", raw, -1)
	db := []string{"db", ""}[vs.Choice("noCurrentDB", 2)]
	vs.TagI("template", int64(ti))

	// the proxy's full analysis
	stmt, err := parser.ParseSQL(sql)
	if err != nil {
		vs.Cover("C06/not-a-statement")
		return
	}
	checker := plan.NewChecker(db, rt)
	stmt.Accept(checker)
	sharded := checker.IsShard()

	reqCtx := util.NewRequestContext()
	reqCtx.SetStmtType(parser.Preview(sql))
	_, fast := se.preBuildUnshardPlan(reqCtx, db, sql)
	if sharded {
		vs.Assert(!fast, "C06/statement-with-a-sharded-table-takes-the-fast-path:"+strings.Replace(strings.Replace(templates[ti], " ", "_", -1), "\n", "_", -1))
		vs.Cover("C06/sharded")
	} else {
		vs.Cover("C06/unsharded")
	}
}
