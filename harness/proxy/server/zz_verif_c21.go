package server

// C21 — read-only users cannot change data or schema.

import (
	"github.com/XiaoMi/Gaea/models"
	"github.com/XiaoMi/Gaea/mysql"
	"github.com/XiaoMi/Gaea/util"
	vs "github.com/XiaoMi/Gaea/zz_verifsym"
)

type vhC21Word struct {
	word  string
	write bool
}

var vhC21Words = []vhC21Word{
	{"insert", true}, {"replace", true}, {"update", true}, {"delete", true},
	{"create", true}, {"alter", true}, {"drop", true}, {"truncate", true}, {"rename", true}, {"load", true},
	{"select", false}, {"show", false}, {"explain", false}, {"set", false}, {"use", false}, {"begin", false},
}

// vhC21Space: one symbolic ASCII whitespace byte (space, \t, \n, \v, \f, \r).
func vhC21Space(name string) byte {
	b := vs.Byte(name)
	vs.Assume(vs.Or(b == ' ', vs.And(b >= '\t', b <= '\r')))
	return b
}

func vhC21Executor(rwSplit int) *SessionExecutor {
	ns := &Namespace{name: "ns", userProperties: map[string]*UserProperty{"ro": {RWFlag: models.ReadOnly, RWSplit: rwSplit}}}
	return &SessionExecutor{user: "ro", namespace: "ns", contextNamespace: ns}
}

// vhC21ToLower: strings.ToLower for ASCII text without forking on each byte (engine only;
// the keyword's letters carry symbolic case bits).
func vhC21ToLower(s string) string {
	b := []byte(s)
	for i := range b {
		b[i] = vs.IteByte(vs.And(b[i] >= 'A', b[i] <= 'Z'), b[i]+('a'-'A'), b[i])
	}
	return string(b)
}

//verif:stub strings.ToLower vhC21ToLower
//verif:harness prop=C21 bounds="statement arriving as text or as a piece of an executed prepared statement; text = lead + keyword + separator + rest; keyword from 10 write and 6 read keywords with the case of every letter symbolic; separator: any ASCII whitespace byte (symbolic); lead from {empty, symbolic whitespace byte, '/*c*/', '/*c*/'+whitespace, '-- c\\n', '#c\\n', '('}; read-only user with and without read/write splitting"
func Harness_C21_DirectQuery() {
	w := vhC21Words[vs.Choice("keyword", len(vhC21Words))]
	var text []byte
	lead := vs.Choice("lead", 7)
	vs.TagI("lead", int64(lead))
	switch lead {
	case 1:
		text = append(text, vhC21Space("leadSpace"))
	case 2:
		text = append(text, "/*c*/"...)
	case 3:
		text = append(append(text, "/*c*/"...), vhC21Space("leadSpace"))
	case 4:
		text = append(text, "-- c\n"...)
	case 5:
		text = append(text, "#c\n"...)
	case 6:
		text = append(text, '(')
	}
	for i := 0; i < len(w.word); i++ {
		c := w.word[i]
		text = append(text, vs.IteByte(vs.Bool("upper"), c-'a'+'A', c))
	}
	text = append(text, vhC21Space("sep"))
	text = append(text, "t1 x"...)
	se := vhC21Executor(vs.Choice("rwSplit", 2))
	// the statement arrives as text (COM_QUERY) or as a piece of a prepared statement being executed
	rc := util.NewRequestContext()
	if vs.Choice("viaPreparedStatement", 2) == 1 {
		rc.SetCmdStmtType(mysql.ComStmtExecute)
	}
	err := se.checkSQLAllowed(rc, string(text))
	vs.TagI("keyword", int64(vs.Concrete(0)))
	if w.write {
		vs.Assert(err != nil, "C21/write-statement-rejected-for-read-only-user:"+w.word)
	} else {
		vs.Assert(err == nil, "C21/read-statement-allowed:"+w.word)
	}
	vs.Cover("C21/done")
}
