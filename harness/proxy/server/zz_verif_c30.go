package server

// C30 — password checks accept exactly the proofs MySQL would accept.
//
// SHA-1 and SHA-256 are uninterpreted functions here: every application returns fresh
// symbolic output bytes, constrained so that equal inputs give equal outputs and
// (collision freedom, an assumption) different inputs give different outputs.

import (
	"hash"
	"net"
	"time"

	"github.com/XiaoMi/Gaea/models"
	"github.com/XiaoMi/Gaea/mysql"
	vs "github.com/XiaoMi/Gaea/zz_verifsym"
)

type vhUFEntry struct {
	size    int
	in, out []byte
}

var vhUFTable []vhUFEntry

func vhBytesEq(a, b []byte) bool {
	if len(a) != len(b) {
		return false
	}
	r := true
	for i := range a {
		r = vs.And(r, a[i] == b[i])
	}
	return r
}

func vhUF(size int, in []byte) []byte {
	out := vs.Bytes("digest", size)
	for _, e := range vhUFTable {
		if e.size != size {
			continue
		}
		same := vhBytesEq(e.in, in)
		vs.Assume(same == vhBytesEq(e.out, out))
	}
	cp := append([]byte(nil), in...)
	vhUFTable = append(vhUFTable, vhUFEntry{size, cp, out})
	return out
}

type vhHash struct {
	size int
	buf  []byte
}

func (h *vhHash) Write(p []byte) (int, error) { h.buf = append(h.buf, p...); return len(p), nil }
func (h *vhHash) Sum(b []byte) []byte         { return append(b, vhUF(h.size, h.buf)...) }
func (h *vhHash) Reset()                      { h.buf = nil }
func (h *vhHash) Size() int                   { return h.size }
func (h *vhHash) BlockSize() int              { return 64 }

func vhSha1New() hash.Hash   { return &vhHash{size: 20} }
func vhSha256New() hash.Hash { return &vhHash{size: 32} }

func vhSha1(in ...[]byte) []byte {
	h := vhSha1New()
	for _, p := range in {
		h.Write(p)
	}
	return h.Sum(nil)
}
func vhSha256(in ...[]byte) []byte {
	h := vhSha256New()
	for _, p := range in {
		h.Write(p)
	}
	return h.Sum(nil)
}

// vhHexDecode: hex.DecodeString for well-formed lower-case hex, without forking (engine only).
func vhHexDecode(s string) ([]byte, error) {
	nib := func(c byte) byte { return vs.IteByte(c <= '9', c-'0', c-'a'+10) }
	out := make([]byte, len(s)/2)
	for i := range out {
		out[i] = nib(s[2*i])<<4 | nib(s[2*i+1])
	}
	return out, nil
}

func vhHexEncode(b []byte) string {
	digit := func(n byte) byte { return vs.IteByte(n < 10, '0'+n, 'a'+n-10) }
	out := make([]byte, 0, 2*len(b))
	for _, x := range b {
		out = append(out, digit(x>>4), digit(x&15))
	}
	return string(out)
}

type vhAddr struct{}

func (vhAddr) Network() string { return "tcp" }
func (vhAddr) String() string  { return "10.0.0.1:4000" }

type vhNetConn struct{}

func (vhNetConn) Read(b []byte) (int, error)         { return 0, nil }
func (vhNetConn) Write(b []byte) (int, error)        { return len(b), nil }
func (vhNetConn) Close() error                       { return nil }
func (vhNetConn) LocalAddr() net.Addr                { return vhAddr{} }
func (vhNetConn) RemoteAddr() net.Addr               { return vhAddr{} }
func (vhNetConn) SetDeadline(t time.Time) error      { return nil }
func (vhNetConn) SetReadDeadline(t time.Time) error  { return nil }
func (vhNetConn) SetWriteDeadline(t time.Time) error { return nil }

type vhStored struct {
	text   string // as configured
	isHash bool
	clear  []byte // clear text (when !isHash)
	h2     []byte // SHA1(SHA1(password)) (when isHash)
}

//verif:mock crypto/sha1.New vhSha1New
//verif:mock crypto/sha256.New vhSha256New
//verif:stub encoding/hex.DecodeString vhHexDecode
//verif:harness prop=C30 bounds="one user with 1 (quick) / 1..2 (thorough) stored passwords, each clear text of 1..2 symbolic bytes or '*'+40 hex digits of a symbolic 20-byte value; salt: 20 symbolic bytes; auth response of length 0, 19, 20, 21 or 32 with symbolic bytes; plugin '', mysql_native_password, caching_sha2_password; SHA-1/SHA-256 uninterpreted and collision-free"
func Harness_C30_PasswordCheck() {
	vhUFTable = nil
	salt := vs.Bytes("salt", 20)
	nPw := vs.IntRange("passwords", 1, vs.Pick(1, 2))
	var stored []vhStored
	ns := &models.Namespace{Name: "ns1"}
	for i := 0; i < nPw; i++ {
		var s vhStored
		if vs.Choice("storedAsHash", 2) == 1 {
			s.isHash = true
			s.h2 = vs.Bytes("h2", 20)
			s.text = "*" + vhHexEncode(s.h2)
		} else {
			s.clear = vs.Bytes("clear", vs.IntRange("clearLen", 1, 2))
			s.text = string(s.clear)
		}
		stored = append(stored, s)
		ns.Users = append(ns.Users, &models.User{UserName: "u", Password: s.text, Namespace: "ns1"})
	}
	um, _ := CreateUserManager(map[string]*models.Namespace{"ns1": ns})
	m := &Manager{}
	m.users[0] = um
	m.namespaces[0] = &NamespaceManager{namespaces: map[string]*Namespace{"ns1": {name: "ns1"}}}
	cc := &Session{manager: m, executor: &SessionExecutor{manager: m}, c: &ClientConn{Conn: mysql.NewConn(vhNetConn{}), manager: m}}

	respLen := []int{20, 21, 32, 19, 0}[vs.Choice("responseLength", 5)]
	resp := vs.Bytes("response", respLen)
	orig := append([]byte(nil), resp...)
	pluginKind := vs.Choice("plugin", 3)
	plugin := []string{"", mysql.MysqlNativePassword, mysql.CachingSHA2Password}[pluginKind]
	vs.TagI("responseLength", int64(respLen))
	vs.TagI("plugin", int64(pluginKind))
	anyHash := false
	for _, st := range stored {
		anyHash = anyHash || st.isHash
	}
	vs.TagB("storedAsHash", anyHash)
	vs.TagI("passwords", int64(nPw))

	err := cc.handleHandshakeResponse(HandshakeResponseInfo{CollationID: mysql.DefaultCollationID, User: "u", AuthResponse: resp, Salt: salt, AuthPlugin: plugin})

	// reference, from the protocol definition
	nativeOK, sha2OK := false, false
	for _, s := range stored {
		if s.isHash {
			// server side check against the stored SHA1(SHA1(p)): SHA1(resp XOR SHA1(salt+H2)) == H2
			if respLen == 20 {
				x := vhSha1(salt, s.h2)
				y := make([]byte, 20)
				for i := range y {
					y[i] = orig[i] ^ x[i]
				}
				nativeOK = vs.Or(nativeOK, vhBytesEq(vhSha1(y), s.h2))
			}
			continue
		}
		s1 := vhSha1(s.clear)
		x := vhSha1(salt, vhSha1(s1))
		if respLen == 20 {
			ok := true
			for i := 0; i < 20; i++ {
				ok = vs.And(ok, orig[i] == s1[i]^x[i])
			}
			nativeOK = vs.Or(nativeOK, ok)
		}
		m1 := vhSha256(s.clear)
		m2 := vhSha256(vhSha256(m1), salt)
		if respLen == 32 {
			ok := true
			for i := 0; i < 32; i++ {
				ok = vs.And(ok, orig[i] == m1[i]^m2[i])
			}
			sha2OK = vs.Or(sha2OK, ok)
		}
	}
	want := vs.Or(nativeOK, sha2OK)
	if plugin == mysql.MysqlNativePassword {
		want = nativeOK
	} else if plugin == mysql.CachingSHA2Password {
		want = sha2OK
	}
	vs.Assert(vs.Implies(want, err == nil), "C30/correct-proof-accepted")
	vs.Assert(vs.Implies(err == nil, want), "C30/only-correct-proofs-accepted")
	if err == nil {
		vs.Assert(cc.namespace == "ns1", "C30/bound-to-the-namespace-of-the-password")
		vs.Cover("C30/accepted")
	} else {
		vs.Cover("C30/rejected")
	}
}
