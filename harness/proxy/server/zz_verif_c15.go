package server

// C15 — binding parameters preserves their values and cannot change the statement.

import (
	"strconv"

	"github.com/XiaoMi/Gaea/mysql"
	vs "github.com/XiaoMi/Gaea/zz_verifsym"
)

// vhC15Decode scans one quoted literal at the start of s per MySQL's lexical rules and returns
// its value and the number of bytes consumed; ok=false if s does not start with a complete literal.
// noBackslash selects sql_mode NO_BACKSLASH_ESCAPES.
func vhC15Decode(s []byte, noBackslash bool) (val []byte, n int, ok bool) {
	if len(s) == 0 || s[0] != '\'' {
		return nil, 0, false
	}
	i := 1
	for i < len(s) {
		c := s[i]
		if c == '\\' && !noBackslash {
			if i+1 >= len(s) {
				return nil, 0, false
			}
			e := s[i+1]
			switch e {
			case '0':
				val = append(val, 0)
			case 'n':
				val = append(val, '\n')
			case 'r':
				val = append(val, '\r')
			case 't':
				val = append(val, '\t')
			case 'b':
				val = append(val, 8)
			case 'Z':
				val = append(val, 26)
			default:
				val = append(val, e)
			}
			i += 2
			continue
		}
		if c == '\'' {
			if i+1 < len(s) && s[i+1] == '\'' {
				val = append(val, '\'')
				i += 2
				continue
			}
			return val, i + 1, true
		}
		val = append(val, c)
		i++
	}
	return nil, 0, false
}

//verif:harness prop=C15 bounds="statement 'select ?' with one string/blob parameter of 0..3 arbitrary symbolic bytes (every byte value: quotes, backslashes, NUL, bytes >= 0x80, multi-byte UTF-8) sent inline or as long data; the rewritten text is scanned under the default sql_mode and under NO_BACKSLASH_ESCAPES"
func Harness_C15_StringParameter() {
	se := &SessionExecutor{stmts: map[uint32]*Stmt{}}
	s := vhC16Prepare(se, 1, "select ?")
	n := vs.IntRange("len", 0, 3)
	v := vs.Bytes("value", n)
	hasQuote, hasBackslash := false, false
	for i := range v {
		hasQuote = vs.Or(hasQuote, v[i] == '\'')
		hasBackslash = vs.Or(hasBackslash, v[i] == '\\')
	}
	noBackslash := vs.Choice("NO_BACKSLASH_ESCAPES", 2) == 1
	vs.TagB("noBackslashMode", noBackslash)
	vs.TagB("hasQuote", hasQuote)
	vs.TagB("hasBackslash", hasBackslash)
	if vs.Choice("asLongData", 2) == 1 {
		vs.Assert(se.handleStmtSendLongData(append([]byte{1, 0, 0, 0, 0, 0}, v...)) == nil, "C15/long-data-accepted")
		vs.Assert(se.bindStmtArgs(s, []byte{0}, []byte{mysql.TypeBlob, 0}, nil) == nil, "C15/bind-ok")
	} else {
		payload := append([]byte{byte(n)}, v...)
		tp := []byte{mysql.TypeVarString, mysql.TypeBlob, mysql.TypeString, mysql.TypeJSON}[vs.Choice("type", 4)]
		vs.Assert(se.bindStmtArgs(s, []byte{0}, []byte{tp, 0}, payload) == nil, "C15/bind-ok")
	}
	text, err := s.GetRewriteSQL()
	vs.Assert(err == nil, "C15/rewrite-ok")
	b := []byte(text)
	vs.Assert(len(b) >= 7 && string(b[:7]) == "select ", "C15/template-kept")
	val, used, ok := vhC15Decode(b[7:], noBackslash)
	vs.Assert(ok && used == len(b)-7, "C15/value-is-exactly-one-literal")
	if ok && used == len(b)-7 {
		vs.Assert(len(val) == n, "C15/literal-denotes-the-bound-value")
		for i := 0; i < n && i < len(val); i++ {
			vs.Assert(val[i] == v[i], "C15/literal-denotes-the-bound-value")
		}
	}
	vs.Cover("C15/string/done")
}

//verif:harness prop=C15 bounds="statement 'select ?' with one integer parameter: TINY/SHORT/LONG/LONGLONG, signed and unsigned, boundary values (0, 1, -1, min, max of the width) enumerated concretely (number formatting of symbolic integers is outside the engine), and NULL"
func Harness_C15_IntegerParameter() {
	se := &SessionExecutor{stmts: map[uint32]*Stmt{}}
	s := vhC16Prepare(se, 1, "select ?")
	width := []int{1, 2, 4, 8}[vs.Choice("width", 4)]
	unsigned := vs.Choice("unsigned", 2) == 1
	pats := []uint64{0, 1, ^uint64(0), 1 << (uint(width)*8 - 1), 1<<(uint(width)*8-1) - 1, 0x7f, 0x80}
	bits := pats[vs.Choice("pattern", len(pats))]
	if width < 8 {
		bits &= 1<<(uint(width)*8) - 1
	}
	payload := make([]byte, width)
	for i := range payload {
		payload[i] = byte(bits >> (8 * uint(i)))
	}
	tp := map[int]byte{1: mysql.TypeTiny, 2: mysql.TypeShort, 4: mysql.TypeLong, 8: mysql.TypeLonglong}[width]
	flag := byte(0)
	if unsigned {
		flag = 0x80
	}
	null := vs.Choice("null", 2) == 1
	bitmap := byte(0)
	if null {
		bitmap = 1
	}
	vs.Assert(se.bindStmtArgs(s, []byte{bitmap}, []byte{tp, flag}, payload) == nil, "C15/bind-ok")
	text, err := s.GetRewriteSQL()
	vs.Assert(err == nil, "C15/rewrite-ok")
	want := "NULL"
	if !null {
		if unsigned {
			want = strconv.FormatUint(bits, 10)
		} else {
			sh := uint(64 - width*8)
			want = strconv.FormatInt(int64(bits<<sh)>>sh, 10)
		}
	}
	vs.Assert(text == "select "+want, "C15/number-denotes-the-bound-value")
	vs.Cover("C15/int/done")
}
