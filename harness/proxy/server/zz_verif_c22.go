package server

// C22 — read/write splitting sends only plain reads to replicas.

import (
	"github.com/XiaoMi/Gaea/models"
	"github.com/XiaoMi/Gaea/parser"
	"github.com/XiaoMi/Gaea/util"
	vs "github.com/XiaoMi/Gaea/zz_verifsym"
)

// vhCase returns word with the case of every letter symbolic.
func vhCase(word string) []byte {
	b := []byte(word)
	for i, c := range b {
		if c >= 'a' && c <= 'z' {
			b[i] = vs.IteByte(vs.Bool("upper"), c-'a'+'A', c)
		}
	}
	return b
}

// vhC22EqualFold: strings.EqualFold for ASCII without forking (engine only).
func vhC22EqualFold(a, b string) bool {
	if len(a) != len(b) {
		return false
	}
	return vhC21ToLower(a) == vhC21ToLower(b)
}

type vhC22Body struct {
	text      []byte
	plainRead bool // a replica may serve it (outside a transaction)
	kind      int
}

// vhC22Bodies: the statement forms of the property, keywords that decide the routing
// carry symbolic case.
func vhC22Body_(kind int) vhC22Body {
	cat := func(parts ...[]byte) []byte {
		var r []byte
		for _, p := range parts {
			r = append(r, p...)
		}
		return r
	}
	sel := []byte("select * from t where a = 1")
	sp := []byte(" ")
	switch kind {
	case 0:
		return vhC22Body{sel, true, kind}
	case 1:
		return vhC22Body{cat(sel, sp, vhCase("for"), sp, vhCase("update")), false, kind}
	case 2:
		return vhC22Body{cat(sel, sp, vhCase("for"), sp, vhCase("share")), false, kind}
	case 3:
		return vhC22Body{cat(sel, sp, []byte("lock in "), vhCase("share"), sp, vhCase("mode")), false, kind}
	case 4:
		return vhC22Body{cat(sel, sp, []byte("for "), vhCase("update"), sp, vhCase("nowait")), false, kind}
	case 5:
		return vhC22Body{cat(sel, sp, []byte("for update "), vhCase("skip"), sp, vhCase("locked")), false, kind}
	case 6:
		return vhC22Body{cat(sel, sp, []byte("for "), vhCase("share"), sp, vhCase("nowait")), false, kind}
	case 7:
		return vhC22Body{cat([]byte("/*"), vhCase("master"), []byte("*/ "), sel), false, kind}
	case 8:
		return vhC22Body{cat([]byte("select /*"), vhCase("master"), []byte("*/ * from t")), false, kind}
	case 9:
		return vhC22Body{cat(sel, []byte(" /*"), vhCase("master"), []byte("*/")), false, kind}
	case 10:
		return vhC22Body{cat([]byte("select @@"), vhCase("read_only")), false, kind}
	case 11:
		return vhC22Body{cat([]byte("select @@"), vhCase("global"), []byte(".read_only")), false, kind}
	case 12:
		return vhC22Body{cat([]byte("show variables like '"), vhCase("read_only"), []byte("'")), false, kind}
	case 13:
		return vhC22Body{[]byte("show tables"), true, kind}
	case 14:
		return vhC22Body{[]byte("insert into t values (1)"), false, kind}
	case 15:
		return vhC22Body{[]byte("update t set a = 1"), false, kind}
	default:
		return vhC22Body{[]byte("delete from t where a = 1"), false, kind}
	}
}

//verif:stub strings.ToLower vhC21ToLower
//verif:stub strings.EqualFold vhC22EqualFold
//verif:harness prop=C22 bounds="17 statement forms (plain select/show, the locking-read clauses with NOWAIT / SKIP LOCKED, master hint in leading / inline / trailing position, read_only probes, insert/update/delete) with symbolic letter case on the deciding keywords; lead from {empty, whitespace byte, '/*trace*/ '}; trail from {empty, whitespace byte, ';', ' /*trace*/', ' -- x'}; read/write-split user, CheckSelectLock on, outside a transaction"
func Harness_C22_ReplicaDecision() {
	b := vhC22Body_(vs.Choice("body", 17))
	var text []byte
	lead := vs.Choice("lead", 3)
	switch lead {
	case 1:
		text = append(text, vhC21Space("leadSpace"))
	case 2:
		text = append(text, "/*trace*/ "...)
	}
	text = append(text, b.text...)
	trail := vs.Choice("trail", 5)
	switch trail {
	case 1:
		text = append(text, vhC21Space("trailSpace"))
	case 2:
		text = append(text, ';')
	case 3:
		text = append(text, " /*trace*/"...)
	case 4:
		text = append(text, " -- x"...)
	}
	vs.TagI("body", int64(b.kind))
	vs.TagI("lead", int64(lead))
	vs.TagI("trail", int64(trail))
	sql := string(text)
	ns := &Namespace{name: "ns", CheckSelectLock: true,
		userProperties: map[string]*UserProperty{"rw": {RWFlag: models.ReadWrite, RWSplit: models.ReadWriteSplit}}}
	se := &SessionExecutor{user: "rw", namespace: "ns", contextNamespace: ns}
	reqCtx := util.NewRequestContext()
	reqCtx.SetStmtType(parser.Preview(sql))
	reqCtx.SetTokens(parser.Tokenize(sql))
	replica := checkExecuteFromSlave(reqCtx, se, sql)
	if !b.plainRead {
		vs.Assert(!replica, "C22/only-plain-reads-go-to-replicas:"+[]string{"plain", "for-update", "for-share", "lock-in-share-mode", "for-update-nowait", "for-update-skip-locked", "for-share-nowait", "hint-leading", "hint-inline", "hint-trailing", "probe-read_only", "probe-global.read_only", "probe-show-variables", "show", "insert", "update", "delete"}[b.kind])
	}
	if replica {
		vs.Cover("C22/replica")
	} else {
		vs.Cover("C22/master")
	}
}
