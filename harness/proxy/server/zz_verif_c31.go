package server

// C31 — online reload never loses or resurrects a namespace configuration.

import (
	"time"

	"github.com/XiaoMi/Gaea/models"
	vs "github.com/XiaoMi/Gaea/zz_verifsym"
)

// The heavy namespace constructor (pools, health checks) is not the subject: a
// rebuilt namespace is a light object that remembers which configuration version
// it was built from.
func vhC31Rebuild(n *NamespaceManager, config *models.Namespace) error {
	n.namespaces[config.Name] = &Namespace{name: config.Name, defaultCharset: config.DefaultCharset}
	return nil
}

func vhC31Close(n *Namespace, delay bool) {}

// natively the "go ns.Close(true)" goroutines must run while the mock is still installed
func vhC31Settle() {
	if !vs.Symbolic() {
		time.Sleep(30 * time.Millisecond)
	}
}

func vhC31Config(name, version string) *models.Namespace {
	return &models.Namespace{Name: name, DefaultCharset: version,
		Users: []*models.User{{UserName: name, Password: version, Namespace: name}}}
}

//verif:mock (*github.com/XiaoMi/Gaea/proxy/server.NamespaceManager).RebuildNamespace vhC31Rebuild
//verif:mock (*github.com/XiaoMi/Gaea/proxy/server.Namespace).Close vhC31Close
//verif:harness prop=C31 bounds="one proxy, namespaces A and B live at version v0; every sequence of k=3 (quick) / 4 (thorough) operations from {prepare(n, fresh version), commit(n), delete(n)}, n in {A,B}; after every operation the live configuration and the credentials of every namespace are compared with the specification; sequential administrators (no interleaving inside an operation)"
func Harness_C31_ReloadSequences() {
	defer vhC31Settle()
	names := []string{"A", "B"}
	m := &Manager{statistics: &StatisticManager{SQLResponsePercentile: map[string]*SQLResponse{}}}
	nm := NewNamespaceManager()
	cfgs := map[string]*models.Namespace{}
	for _, n := range names {
		nm.namespaces[n] = &Namespace{name: n, defaultCharset: "v0"}
		cfgs[n] = vhC31Config(n, "v0")
	}
	m.namespaces[0] = nm
	um, _ := CreateUserManager(cfgs)
	m.users[0] = um

	live := map[string]string{"A": "v0", "B": "v0"}
	prepared := map[string]string{}
	versions := []string{"v1", "v2", "v3", "v4"}
	pendingAny := false // model of the proxy's single "prepared" flag
	lastWriter := ""    // last operation that wrote the standby generation
	staleCommit := false
	k := vs.Pick(3, 4)
	for step := 0; step < k; step++ {
		n := names[vs.Choice("namespace", 2)]
		switch vs.Choice("op", 3) {
		case 0: // prepare
			v := versions[step]
			err := m.ReloadNamespacePrepare(vhC31Config(n, v))
			vs.Assert(err == nil, "C31/prepare-ok")
			prepared[n] = v
			pendingAny = true
			lastWriter = "prepare:" + n
		case 1: // commit
			if pendingAny && lastWriter != "prepare:"+n {
				staleCommit = true
			}
			if _, has := prepared[n]; has && !pendingAny {
				// same root cause: the proxy's single prepared flag was consumed by another namespace's commit
				staleCommit = true
			}
			vs.TagB("staleCommit", staleCommit)
			err := m.ReloadNamespaceCommit(n)
			if v, ok := prepared[n]; ok {
				vs.Assert(err == nil, "C31/commit-of-a-prepared-namespace-succeeds")
				if err == nil {
					live[n] = v
					delete(prepared, n)
				}
			} else {
				vs.Assert(err != nil, "C31/commit-without-prepare-fails")
			}
			if err == nil {
				pendingAny = false
			}
		case 2: // delete
			err := m.DeleteNamespace(n)
			vs.Assert(err == nil, "C31/delete-ok")
			delete(live, n)
			lastWriter = "delete:" + n
		}
		vs.TagB("staleCommit", staleCommit)
		// the live generation equals the specification
		for _, x := range names {
			ns := m.GetNamespace(x)
			v, ok := live[x]
			if !ok {
				vs.Assert(ns == nil, "C31/deleted-namespace-stays-deleted")
				vs.Assert(!m.CheckUser(x), "C31/deleted-namespace-has-no-credentials")
				continue
			}
			vs.Assert(ns != nil, "C31/live-namespace-present")
			if ns != nil {
				vs.Assert(ns.defaultCharset == v, "C31/live-configuration-is-the-last-committed")
			}
			vs.Assert(m.GetNamespaceByUser(x, v) == x, "C31/credentials-of-the-live-configuration-work")
			for _, old := range append([]string{"v0"}, versions...) {
				if old != v {
					vs.Assert(m.GetNamespaceByUser(x, old) == "", "C31/credentials-of-other-versions-do-not-work")
				}
			}
		}
	}
	vs.Cover("C31/done")
}
