package plan

// C05 — UPDATE and DELETE affect exactly the matching rows and never move a row.

import (
	"fmt"
	"strings"

	"github.com/XiaoMi/Gaea/models"
	"github.com/XiaoMi/Gaea/mysql"
	"github.com/XiaoMi/Gaea/parser"
	"github.com/XiaoMi/Gaea/parser/ast"
	driver "github.com/XiaoMi/Gaea/parser/tidb-types/parser_driver"
	"github.com/XiaoMi/Gaea/proxy/sequence"
	"github.com/XiaoMi/Gaea/util"
	vs "github.com/XiaoMi/Gaea/zz_verifsym"
)

// vhTokenGen draws integer literals like vhIntGen and registers them so that the generated SQL
// shows a token where the number would be formatted.
func vhTokenGen(lo, hi int64) vhValGen {
	n := 0
	return func(name string) (int64, ast.ExprNode) {
		v := vs.Int64(name)
		vs.Assume(v >= lo && v <= hi)
		ve := &driver.ValueExpr{}
		ve.SetInt64(v)
		vhC03Tokens[ve] = fmt.Sprintf("#v%d#", n)
		n++
		return v, ve
	}
}

// vhC05Exec stands in for the session: every statement is answered with a symbolic affected-row count.
type vhC05Exec struct {
	statements int
	sum        uint64
}

func (e *vhC05Exec) ExecuteSQL(ctx *util.RequestContext, slice, db, sql string) (*mysql.Result, error) {
	return nil, fmt.Errorf("unexpected")
}
func (e *vhC05Exec) ExecuteSQLs(ctx *util.RequestContext, sqls map[string]map[string][]string) ([]*mysql.Result, error) {
	var rs []*mysql.Result
	for _, dbs := range sqls {
		for _, list := range dbs {
			for range list {
				n := uint64(vs.SymRange("affected", 0, 1<<40))
				e.statements++
				e.sum += n
				rs = append(rs, &mysql.Result{AffectedRows: n})
			}
		}
	}
	return rs, nil
}
func (e *vhC05Exec) SetLastInsertID(uint64)   {}
func (e *vhC05Exec) GetLastInsertID() uint64  { return 0 }
func (e *vhC05Exec) HandleSet(*util.RequestContext, string, *ast.SetStmt) (*mysql.Result, error) {
	return nil, nil
}

// vhTablesOf lists the sub tables of t the generated statements are sent to, one entry per statement.
func vhTablesOf(sqls map[string]map[string][]string, indexes []int) (tables []int, unknown bool) {
	for _, dbs := range sqls {
		for _, list := range dbs {
			for _, text := range list {
				found := false
				for _, i := range indexes {
					if strings.Contains(text, fmt.Sprintf("`t_%04d`", i)) {
						tables = append(tables, i)
						found = true
					}
				}
				if !found {
					unknown = true
				}
			}
		}
	}
	return
}

//verif:harness prop=C05 bounds="UPDATE t SET a = 1 WHERE c and DELETE FROM t WHERE c (also with alias and ORDER BY a), parsed by the real parser and planned by the real BuildPlan, on the range rule of C01 (3 tables of 100 rows); c from the C01 grammar (leaf, NOT(leaf), leaf AND leaf2, leaf OR leaf2; literals symbolic in -5..305); row (id, other) any int64; per-shard affected-row counts symbolic; the plan is run through its real ExecuteIn against a backend stand-in"
//verif:mock (*github.com/XiaoMi/Gaea/parser/tidb-types/parser_driver.ValueExpr).Restore vhC03Restore
func Harness_C05_UpdateDeleteWhere() {
	vhC03Tokens = map[*driver.ValueExpr]string{}
	rt := vhRouter(&models.Shard{DB: "db", Table: "t", Type: models.ShardRange, Key: "id", Locations: []int{2, 1}, Slices: []string{"s0", "s1"}, TableRowLimit: 100})
	rule, _ := rt.GetShardRule("db", "t")
	tables := append([]int(nil), rule.GetSubTableIndexes()...)
	texts := []string{
		"update t set a = 1 where id = 0",
		"delete from t where id = 0",
		"update t as x set x.a = 1 where id = 0 order by a",
		"delete from t where id = 0 order by a",
	}
	form := vs.Choice("statement", vs.Pick(2, 4))
	stmt, err := parser.ParseSQL(texts[form])
	vs.Assert(err == nil, "C05/fixture-parses")
	if err != nil {
		return
	}
	c := vhTree(vhTokenGen(-5, 305), []int{0, 1, 2, 3})
	switch s := stmt.(type) {
	case *ast.UpdateStmt:
		s.Where = c.exprNode
	case *ast.DeleteStmt:
		s.Where = c.exprNode
	}
	p, err := BuildPlan(stmt, nil, "db", texts[form], rt, sequence.NewSequenceManager(), nil)
	if err != nil {
		vs.Cover("C05/rejected")
		return
	}
	var sqls map[string]map[string][]string
	switch pl := p.(type) {
	case *UpdatePlan:
		sqls = pl.sqls
	case *DeletePlan:
		sqls = pl.sqls
	default:
		vs.Fail("C05/plan-type")
		return
	}
	routed, unknown := vhTablesOf(sqls, tables)
	vs.Assert(!unknown, "C05/every-statement-targets-a-sub-table")
	for i, a := range routed {
		for j := 0; j < i; j++ {
			vs.Assert(routed[j] != a, "C05/each-sub-table-gets-the-statement-once")
		}
	}
	// the reported count is the sum of what the shards report: the plan is executed against a
	// backend stand-in that answers every statement with a symbolic affected-row count
	ex := &vhC05Exec{}
	res, xerr := p.ExecuteIn(util.NewRequestContext(), ex)
	if len(routed) == 0 {
		vs.Cover("C05/nothing-routed")
	} else {
		vs.Assert(xerr == nil && res != nil && ex.statements == len(routed), "C05/every-generated-statement-is-executed-once")
		if res != nil {
			vs.Assert(res.AffectedRows == ex.sum, "C05/affected-rows-is-the-sum-over-the-shards")
		}
	}
	// every matching row is in a table that gets the statement
	id, other := vs.Int64("row.id"), vs.Int64("row.other")
	vs.Assume(vhEval(c, id, other))
	idx, ferr := rule.FindTableIndex(id)
	if ferr != nil || !vhContains(tables, idx) {
		vs.Cover("C05/no-table-holds-this-key")
		return
	}
	vs.Assert(vhContains(routed, idx), "C05/table-holding-a-matching-row-gets-the-statement")
	vs.Cover("C05/done")
}

//verif:harness prop=C05 bounds="UPDATE and INSERT ... ON DUPLICATE KEY UPDATE statements (21 texts) that do or do not assign the sharding column: qualified, aliased, back-quoted and upper-case spellings, first or later assignment, on range / hash rules and with a linked table"
func Harness_C05_ShardingColumnAssignment() {
	rt := vhRouter(
		&models.Shard{DB: "db", Table: "t", Type: models.ShardRange, Key: "id", Locations: []int{2, 1}, Slices: []string{"s0", "s1"}, TableRowLimit: 100},
		&models.Shard{DB: "db", Table: "h", Type: models.ShardHash, Key: "UID", Locations: []int{2, 2}, Slices: []string{"s0", "s1"}},
		&models.Shard{DB: "db", Table: "l", Type: models.ShardLinked, Key: "tid", ParentTable: "t"},
	)
	cases := []struct {
		sql     string
		touches bool
	}{
		{"update t set a = 1 where id = 5", false},
		{"update t set id = 6 where id = 5", true},
		{"update t set a = 1, id = 6 where id = 5", true},
		{"update t set t.id = 6 where id = 5", true},
		{"update t set db.t.id = 6 where id = 5", true},
		{"update t set `ID` = 6 where id = 5", true},
		{"update t set `id` = id + 1 where id = 5", true},
		{"update t as x set x.id = 6 where x.id = 5", true},
		{"update t as x set x.a = 6 where x.id = 5", false},
		{"update h set uid = 6 where uid = 5", true},
		{"update h set a = 6 where uid = 5", false},
		{"update h set H.UID = 6 where uid = 5", true},
		{"update l set tid = 6 where tid = 5", true},
		{"update l set a = 6 where tid = 5", false},
		{"insert into t (id, a) values (5, 1) on duplicate key update a = 2", false},
		{"insert into t (id, a) values (5, 1) on duplicate key update id = 6", true},
		{"insert into t (id, a) values (5, 1) on duplicate key update a = 2, id = 6", true},
		{"insert into t (id, a) values (5, 1) on duplicate key update t.id = 6", true},
		{"insert into t (id, a) values (5, 1) on duplicate key update `ID` = 6", true},
		{"insert into t (id, a) values (5, 1) on duplicate key update id = values(id)", true},
		{"insert into h (uid, a) values (5, 1) on duplicate key update UID = 6", true},
	}
	k := vs.Choice("case", len(cases))
	stmt, err := parser.ParseSQL(cases[k].sql)
	vs.Assert(err == nil, "C05/fixture-parses")
	if err != nil {
		return
	}
	_, err = BuildPlan(stmt, nil, "db", cases[k].sql, rt, sequence.NewSequenceManager(), nil)
	if cases[k].touches {
		vs.Assert(err != nil, "C05/assignment-to-the-sharding-column-is-rejected:"+strings.Replace(cases[k].sql, " ", "_", -1))
	} else {
		vs.Assert(err == nil, "C05/other-assignments-are-accepted:"+strings.Replace(cases[k].sql, " ", "_", -1))
	}
	vs.Cover("C05/assignment-done")
}
