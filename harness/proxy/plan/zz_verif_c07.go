package plan

// C07 — concurrent sessions plan independently of each other (planning side).
//
// Sequential shadow of the race: routing one session's statement must leave the rule objects the
// router shares with every other session exactly as they were, and a second session's statement
// must be routed as it would be alone.

import (
	"github.com/XiaoMi/Gaea/models"
	vs "github.com/XiaoMi/Gaea/zz_verifsym"
)

//verif:harness prop=C07 bounds="range rule with 4 tables of 100 rows shared by two sessions; session A routes a condition from the C01 grammar (leaf, leaf AND leaf2, leaf OR leaf2; literals symbolic in -5..405), then session B routes 'id = k' (k symbolic); the rule's table list and slice map are compared before / after, B's route with what it is on a fresh router"
func Harness_C07_PlanningLeavesSharedRulesAlone() {
	mk := func() *models.Shard {
		return &models.Shard{DB: "db", Table: "t", Type: models.ShardRange, Key: "id", Locations: []int{2, 2}, Slices: []string{"s0", "s1"}, TableRowLimit: 100}
	}
	rt := vhRouter(mk())
	rule, _ := rt.GetShardRule("db", "t")
	tables := append([]int(nil), rule.GetSubTableIndexes()...)
	c := vhTree(vhIntGen(-5, 405), []int{0, 1, 2})

	// session A
	pa := NewTableAliasStmtInfo("db", "", rt)
	if _, err := pa.RecordShardTable("db", "t", ""); err != nil {
		vs.Fail("C07/fixture")
		return
	}
	_, _, _, err := handleComparisonExpr(pa, c.exprNode)
	_ = err
	same := len(rule.GetSubTableIndexes()) == len(tables)
	for i := 0; same && i < len(tables); i++ {
		same = rule.GetSubTableIndexes()[i] == tables[i] && rule.GetSliceIndexFromTableIndex(tables[i]) == i/2
	}
	vs.Assert(same, "C07/planning-does-not-write-to-the-shared-rules")

	// session B, on the shared router and alone on a fresh one
	k := vs.Int64("B.key")
	vs.Assume(k >= 0 && k < 400)
	route := func(r *TableAliasStmtInfo) []int {
		if _, err := r.RecordShardTable("db", "t", ""); err != nil {
			return nil
		}
		leaf := &vhCond{kind: 0, op: 0, a: k}
		has, res, _, err := handleComparisonExpr(r, vhEqNode(k))
		_ = leaf
		if err != nil || !has {
			return nil
		}
		r.GetRouteResult().Inter(res)
		return r.GetRouteResult().GetShardIndexes()
	}
	shared := route(NewTableAliasStmtInfo("db", "", rt))
	alone := route(NewTableAliasStmtInfo("db", "", vhRouter(mk())))
	eq := len(shared) == len(alone)
	for i := 0; eq && i < len(alone); i++ {
		eq = shared[i] == alone[i]
	}
	vs.Assert(eq, "C07/a-statement-is-routed-as-it-would-be-alone")
	vs.Cover("C07/planning-done")
}
