package plan

// C04 — global tables: writes reach every copy, reads touch one copy.

import (
	"strings"

	"github.com/XiaoMi/Gaea/models"
	"github.com/XiaoMi/Gaea/parser"
	"github.com/XiaoMi/Gaea/proxy/sequence"
	vs "github.com/XiaoMi/Gaea/zz_verifsym"
)

func vhC04Sqls(p Plan) (map[string]map[string][]string, bool) {
	switch pl := p.(type) {
	case *InsertPlan:
		return pl.sqls, true
	case *UpdatePlan:
		return pl.sqls, true
	case *DeletePlan:
		return pl.sqls, true
	case *SelectPlan:
		return pl.sqls, true
	}
	return nil, false
}

//verif:harness prop=C04 bounds="global table g (and a second global table g2 of the same layout) in four layouts: explicit databases gdb_[0-3] with locations [2,2], explicit databases a,b with locations [1,1], implicit database with locations [1,1] and with locations [2,2]; 16 statements (INSERT / REPLACE / UPDATE / DELETE / SELECT incl. locking reads, joins of two global tables, aliases, schema-qualified names); session db 'db'"
func Harness_C04_GlobalTables() {
	type layout struct {
		locs   []int
		dbs    []string
		copies [][2]string // slice, physical database
	}
	layouts := []layout{
		{[]int{2, 2}, []string{"gdb_[0-3]"}, [][2]string{{"s0", "gdb_0"}, {"s0", "gdb_1"}, {"s1", "gdb_2"}, {"s1", "gdb_3"}}},
		{[]int{1, 1}, []string{"a", "b"}, [][2]string{{"s0", "a"}, {"s1", "b"}}},
		{[]int{1, 1}, nil, [][2]string{{"s0", "db"}, {"s1", "db"}}},
		{[]int{2, 2}, nil, [][2]string{{"s0", "db"}, {"s1", "db"}}},
	}
	li := vs.Choice("layout", len(layouts))
	l := layouts[li]
	vs.TagI("layout", int64(li))
	mk := func(t string) *models.Shard {
		return &models.Shard{DB: "db", Table: t, Type: models.ShardGlobal, Locations: l.locs, Slices: []string{"s0", "s1"}, Databases: l.dbs}
	}
	rt := vhRouter(mk("g"), mk("g2"))
	stmts := []struct {
		sql   string
		write bool
	}{
		{"insert into g (id, a) values (1, 2)", true},
		{"insert into g (id, a) values (1, 2), (3, 4)", true},
		{"replace into g (id, a) values (1, 2)", true},
		{"insert into db.g (id, a) values (1, 2)", true},
		{"update g set a = 1 where id = 2", true},
		{"update db.g set a = 1 where id = 2", true},
		{"update g as x set x.a = 1 where x.id = 2", true},
		{"delete from g where id = 2", true},
		{"delete from db.g where id = 2", true},
		{"select * from g where id = 2", false},
		{"select * from db.g where id = 2", false},
		{"select * from g as x where x.id = 2", false},
		{"select * from g, g2 where g.id = g2.id", false},
		{"select * from g join g2 on g.id = g2.id where g2.a = 1", false},
		{"select * from g where id = 2 for update", false},
		{"select count(*) from g", false},
	}
	si := vs.Choice("statement", len(stmts))
	st := stmts[si]
	vs.TagI("statement", int64(si))
	stmt, err := parser.ParseSQL(st.sql)
	vs.Assert(err == nil, "C04/fixture-parses")
	if err != nil {
		return
	}
	p, err := BuildPlan(stmt, nil, "db", st.sql, rt, sequence.NewSequenceManager(), nil)
	if err != nil {
		vs.Cover("C04/rejected")
		return
	}
	sqls, ok := vhC04Sqls(p)
	vs.Assert(ok, "C04/plan-type")
	if !ok {
		return
	}
	total := 0
	for slice, dbs := range sqls {
		for db, list := range dbs {
			total += len(list)
			isCopy := false
			for _, c := range l.copies {
				if c[0] == slice && c[1] == db {
					isCopy = true
				}
			}
			vs.Assert(isCopy, "C04/statement-sent-to-a-physical-copy")
			for _, text := range list {
				// a schema-qualified name must name the physical database of this copy
				if strings.Contains(st.sql, "db.g") {
					vs.Assert(strings.Contains(text, "`"+db+"`.`g`"), "C04/database-name-rewritten-to-the-copy's-database")
				}
			}
		}
	}
	if st.write {
		for _, c := range l.copies {
			vs.Assert(len(sqls[c[0]][c[1]]) == 1, "C04/write-executed-once-on-every-copy")
		}
		vs.Assert(total == len(l.copies), "C04/write-executed-once-on-every-copy")
	} else {
		vs.Assert(total == 1, "C04/read-executed-on-exactly-one-copy")
	}
	vs.Cover("C04/done")
}
