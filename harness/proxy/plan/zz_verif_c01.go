package plan

// C01 — sharded reads are routed to every table that can hold a matching row.

import (
	"github.com/XiaoMi/Gaea/models"
	"github.com/XiaoMi/Gaea/parser/ast"
	"github.com/XiaoMi/Gaea/parser/model"
	"github.com/XiaoMi/Gaea/parser/opcode"
	driver "github.com/XiaoMi/Gaea/parser/tidb-types/parser_driver"
	"github.com/XiaoMi/Gaea/proxy/router"
	vs "github.com/XiaoMi/Gaea/zz_verifsym"
)

func vhRouter(rules ...*models.Shard) *router.Router {
	sl := func(name string) *models.Slice {
		return &models.Slice{Name: name, UserName: "u", Password: "p", Master: "127.0.0.1:3306", Capacity: 1, MaxCapacity: 1}
	}
	ns := &models.Namespace{
		Name:         "ns",
		AllowedDBS:   map[string]bool{"db": true},
		Users:        []*models.User{{UserName: "u", Password: "p", Namespace: "ns", RWFlag: models.ReadWrite, RWSplit: models.ReadWriteSplit}},
		Slices:       []*models.Slice{sl("s0"), sl("s1")},
		DefaultSlice: "s0",
		ShardRules:   rules,
	}
	rt, err := router.NewRouter(ns)
	if err != nil {
		panic(err)
	}
	return rt
}

// a condition over the row (id, other): a leaf or a binary connective
type vhCond struct {
	kind     int // 0 cmp, 1 in, 2 between, 3 and, 4 or, 5 not-paren
	op       int // cmp: 0 = 1 <> 2 < 3 <= 4 > 5 >=
	onOther  bool
	valLeft  bool
	not      bool
	a, b     int64
	l, r     *vhCond
	inDecor  **PatternInExprDecorator
	exprNode ast.ExprNode
}

// vhVal is the literal node the parser creates for an integer, without the display-width
// bookkeeping of ast.NewValueExpr (which formats the number and is irrelevant to routing).
func vhVal(v int64) ast.ExprNode {
	ve := &driver.ValueExpr{}
	ve.SetInt64(v)
	return ve
}

func vhCol(name string) *ast.ColumnNameExpr {
	return &ast.ColumnNameExpr{Name: &ast.ColumnName{Name: model.NewCIStr(name)}}
}

func vhCmp(op int, x, v int64) bool {
	switch op {
	case 0:
		return x == v
	case 1:
		return x != v
	case 2:
		return x < v
	case 3:
		return x <= v
	case 4:
		return x > v
	}
	return x >= v
}

var vhOps = []opcode.Op{opcode.EQ, opcode.NE, opcode.LT, opcode.LE, opcode.GT, opcode.GE}
var vhMirror = []int{0, 1, 4, 5, 2, 3}

// vhLeaf draws one comparison leaf and builds its AST node. The full menu has the six comparison
// operators in both orientations, [NOT] IN, [NOT] BETWEEN and a comparison on the other column;
// the short menu is id = v, id < v, other = v, v <= id, id IN (v1, v2).
func vhLeaf(gen vhValGen, full bool) *vhCond {
	c := &vhCond{}
	var nodes []ast.ExprNode
	val := func(name string) int64 {
		v, n := gen(name)
		nodes = append(nodes, n)
		return v
	}
	var k int
	col := "id"
	if full {
		k = vs.Choice("leaf", 9)
		if k <= 5 {
			c.valLeft = vs.Choice("valueLeft", 2) == 1
		}
		if k >= 6 && k <= 7 {
			c.not = vs.Choice("not", 2) == 1
		}
	} else {
		m := vs.Choice("leaf2", 5)
		k = []int{0, 2, 8, 5, 6}[m]
		c.valLeft = m == 3
	}
	if k == 8 {
		c.onOther, col, k = true, "other", 0
	}
	switch {
	case k <= 5: // id OP v, or v OP id
		c.kind, c.op, c.a = 0, k, val("v")
		if c.valLeft {
			// "v OP id" means "id MIRROR(OP) v"
			c.exprNode = &ast.BinaryOperationExpr{Op: vhOps[vhMirror[k]], L: nodes[0], R: vhCol(col)}
		} else {
			c.exprNode = &ast.BinaryOperationExpr{Op: vhOps[k], L: vhCol(col), R: nodes[0]}
		}
	case k == 6: // [NOT] IN (a, b)
		c.kind, c.a, c.b = 1, val("v1"), val("v2")
		c.exprNode = &ast.PatternInExpr{Expr: vhCol(col), List: []ast.ExprNode{nodes[0], nodes[1]}, Not: c.not}
	default: // [NOT] BETWEEN a AND b
		c.kind, c.a, c.b = 2, val("lo"), val("hi")
		c.exprNode = &ast.BetweenExpr{Expr: vhCol(col), Left: nodes[0], Right: nodes[1], Not: c.not}
	}
	return c
}

// vhEval is the truth of c on the row (id, other); inList gives the IN list the proxy kept for this leaf (nil: the original).
func vhEval(c *vhCond, id, other int64) bool {
	x := id
	if c.onOther {
		x = other
	}
	switch c.kind {
	case 0:
		return vhCmp(c.op, x, c.a)
	case 1:
		return vs.Or(x == c.a, x == c.b) != c.not
	case 2:
		return vs.And(x >= c.a, x <= c.b) != c.not
	case 3:
		return vs.And(vhEval(c.l, id, other), vhEval(c.r, id, other))
	case 4:
		return vs.Or(vhEval(c.l, id, other), vhEval(c.r, id, other))
	}
	return !vhEval(c.l, id, other)
}

// vhValGen draws one literal: its value for the reference evaluation and its AST node.
type vhValGen func(name string) (int64, ast.ExprNode)

func vhIntGen(lo, hi int64) vhValGen {
	return func(name string) (int64, ast.ExprNode) {
		v := vs.Int64(name)
		vs.Assume(v >= lo && v <= hi)
		return v, vhVal(v)
	}
}

func vhTree(gen vhValGen, shapes []int) *vhCond {
	shape := shapes[vs.Choice("shape", len(shapes))]
	l := vhLeaf(gen, true)
	if shape == 0 {
		return l
	}
	if shape == 3 { // NOT ( leaf )
		return &vhCond{kind: 5, l: l, exprNode: &ast.UnaryOperationExpr{Op: opcode.Not, V: &ast.ParenthesesExpr{Expr: l.exprNode}}}
	}
	r := vhLeaf(gen, false)
	mk := func(and bool, a, b *vhCond) *vhCond {
		if and {
			return &vhCond{kind: 3, l: a, r: b, exprNode: &ast.BinaryOperationExpr{Op: opcode.LogicAnd, L: a.exprNode, R: b.exprNode}}
		}
		return &vhCond{kind: 4, l: a, r: b, exprNode: &ast.BinaryOperationExpr{Op: opcode.LogicOr, L: a.exprNode, R: b.exprNode}}
	}
	switch shape {
	case 1:
		return mk(true, l, r)
	case 2:
		return mk(false, l, r)
	}
	// thorough: (l AND r) OR x, (l OR r) AND x
	x := vhLeaf(gen, false)
	inner := mk(shape == 4, l, r)
	inner.exprNode = &ast.ParenthesesExpr{Expr: inner.exprNode}
	return mk(shape == 5, inner, x)
}

func vhShapes() []int {
	return []int{0, 1, 2, 3, 4, 5}[:vs.Pick(4, 6)]
}

func vhContains(list []int, x int) bool {
	for _, v := range list {
		if v == x {
			return true
		}
	}
	return false
}

// vhC01Check routes the condition through the proxy's WHERE handling and checks the row against the routed tables.
func vhC01Check(rt *router.Router, c *vhCond, id, other int64, key interface{}) {
	p := NewTableAliasStmtInfo("db", "", rt)
	rule, err := p.RecordShardTable("db", "t", "")
	vs.Assert(err == nil, "C01/fixture")
	if err != nil {
		return
	}
	tables := append([]int(nil), rule.GetSubTableIndexes()...)
	has, result, _, err := handleComparisonExpr(p, c.exprNode)
	if err != nil {
		vs.Cover("C01/rejected")
		return
	}
	// routing one statement must not edit the table list the rule shares with every other statement
	same := len(rule.GetSubTableIndexes()) == len(tables)
	for i := 0; same && i < len(tables); i++ {
		same = rule.GetSubTableIndexes()[i] == tables[i]
	}
	vs.Assert(same, "C01/routing-leaves-the-rule's-table-list-unchanged")
	if has {
		p.GetRouteResult().Inter(result)
	}
	routed := p.GetRouteResult().GetShardIndexes()
	vs.Assume(vhEval(c, id, other)) // the row is any row matching the condition
	idx, ferr := rule.FindTableIndex(key)
	if ferr != nil || !vhContains(tables, idx) {
		vs.Cover("C01/no-table-holds-this-key")
		return
	}
	vs.Assert(vhContains(routed, idx), "C01/table-holding-a-matching-row-is-routed")
	vs.Cover("C01/matching-row-routed")
}

//verif:harness prop=C01 maxpaths=2000000 timeout=2400 bounds="range rule, 3 tables of 100 rows (locations [2,1]); condition: leaf, NOT(leaf), leaf AND leaf2, leaf OR leaf2 (thorough: also (l AND r) OR x, (l OR r) AND x); leaf: id OP v / v OP id for the six comparison operators, [NOT] IN (v1,v2), [NOT] BETWEEN v1 AND v2, other = v; leaf2: id = v, id < v, other = v, v <= id, id IN (v1,v2); all values symbolic int64 in -5..305; row (id, other) any int64"
func Harness_C01_Range() {
	rt := vhRouter(&models.Shard{DB: "db", Table: "t", Type: models.ShardRange, Key: "id", Locations: []int{2, 1}, Slices: []string{"s0", "s1"}, TableRowLimit: 100})
	c := vhTree(vhIntGen(-5, 305), vhShapes())
	id, other := vs.Int64("row.id"), vs.Int64("row.other")
	vs.TagB("notBetweenReversed", vhHasReversedNotBetween(c))
	vhC01Check(rt, c, id, other, id)
}

func vhHasReversedNotBetween(c *vhCond) bool {
	if c == nil {
		return false
	}
	if c.kind == 2 {
		return !c.onOther && c.not && c.a > c.b
	}
	return vs.Or(vhHasReversedNotBetween(c.l), vhHasReversedNotBetween(c.r))
}

//verif:harness prop=C01 maxpaths=2000000 timeout=2400 bounds="hash and mod rules with 4 tables (locations [2,2]); same condition grammar; values and row any int64"
func Harness_C01_HashMod() {
	tp := []string{models.ShardHash, models.ShardMod}[vs.Choice("type", 2)]
	rt := vhRouter(&models.Shard{DB: "db", Table: "t", Type: tp, Key: "id", Locations: []int{2, 2}, Slices: []string{"s0", "s1"}})
	c := vhTree(vhIntGen(-1<<63, 1<<63-1), vhShapes())
	id, other := vs.Int64("row.id"), vs.Int64("row.other")
	vhC01Check(rt, c, id, other, id)
}

// vhDate draws a date literal YYYY-MM-DD: YYYY each of 2014..2019, MM-DD from {01-01, 06-15} (rows: also 12-31);
// literals on January 1st also come as 'YYYY-01-01 00:00:00.5'; the reference value is the number YYYYMMDD0 (+1 for the half second), so date order = numeric order. The date is concrete per path:
// the period-start test of the date rules parses it with package time.
func vhDate(name string, forRow bool) (int64, string) {
	y := vs.IntRange(name+".year", 2014, 2019)
	k := vs.Choice(name+".monthday", vs.IteInt(forRow, 3, 2))
	md := []string{"-01-01", "-06-15", "-12-31"}[k]
	text := string([]byte{byte('0' + y/1000), byte('0' + y/100%10), byte('0' + y/10%10), byte('0' + y%10)}) + md
	num := (int64(y)*10000 + []int64{101, 615, 1231}[k]) * 10
	if !forRow && k == 0 && vs.Choice(name+".fraction", 2) == 1 {
		// half a second past the first instant of the year: no longer the period start
		text += " 00:00:00.5"
		num++
	}
	return num, text
}

func vhDateGen(name string) (int64, ast.ExprNode) {
	num, text := vhDate(name, false)
	ve := &driver.ValueExpr{}
	ve.SetString(text)
	return num, ve
}

//verif:harness prop=C01 bounds="date_year rule with tables 2015..2018 (ranges 2015-2016, 2017-2018), date_month rule with tables 201501..201512, date_day rule 20150101..10 and 20150611..20 (quick: year only); conditions leaf and NOT(leaf) with date literals YYYY-MM-DD (every year 2014..2019, MM-DD from {01-01, 06-15}, January 1st also with the time 00:00:00.5); row date of the same form plus 12-31 (dates are enumerated, not symbolic: the rules parse them with package time)"
func Harness_C01_Dates() {
	var r *models.Shard
	switch vs.Choice("rule", vs.Pick(1, 3)) {
	case 0:
		r = &models.Shard{DB: "db", Table: "t", Type: models.ShardYear, Key: "id", DateRange: []string{"2015-2016", "2017-2018"}, Slices: []string{"s0", "s1"}}
	case 2:
		r = &models.Shard{DB: "db", Table: "t", Type: models.ShardDay, Key: "id", DateRange: []string{"20150101-20150110", "20150611-20150620"}, Slices: []string{"s0", "s1"}}
	case 1:
		r = &models.Shard{DB: "db", Table: "t", Type: models.ShardMonth, Key: "id", DateRange: []string{"201501-201506", "201507-201512"}, Slices: []string{"s0", "s1"}}
	}
	rt := vhRouter(r)
	c := vhTree(vhDateGen, []int{0, 3}) // AND / OR merging does not depend on the rule type: Harness_C01_Range
	id, text := vhDate("row", true)
	vhC01Check(rt, c, id, vs.Int64("row.other"), text)
}

// vhEqNode is the AST of "id = k".
func vhEqNode(k int64) ast.ExprNode {
	return &ast.BinaryOperationExpr{Op: vhOps[0], L: vhCol("id"), R: vhVal(k)}
}
