package plan

// C02 — cross-shard SELECT returns what one database holding all shards would return
// (the merge step: aggregates, grouping keys, ORDER BY / LIMIT).

import (
	"github.com/XiaoMi/Gaea/models"
	"github.com/XiaoMi/Gaea/mysql"
	"github.com/XiaoMi/Gaea/parser"
	"github.com/XiaoMi/Gaea/proxy/sequence"
	vs "github.com/XiaoMi/Gaea/zz_verifsym"
)

// vhC02Plan plans sql on a two-table hash rule (one table per slice) with the real parser and planner.
func vhC02Plan(sql string) *SelectPlan {
	rt := vhRouter(&models.Shard{DB: "db", Table: "t", Type: models.ShardHash, Key: "id", Locations: []int{1, 1}, Slices: []string{"s0", "s1"}})
	stmt, err := parser.ParseSQL(sql)
	if err != nil {
		return nil
	}
	p, err := BuildPlan(stmt, nil, "db", sql, rt, sequence.NewSequenceManager(), nil)
	if err != nil {
		return nil
	}
	sp, _ := p.(*SelectPlan)
	return sp
}

func vhC02Result(nfields int, rows [][]interface{}) *mysql.Result {
	fs := make([]*mysql.Field, nfields)
	for i := range fs {
		fs[i] = &mysql.Field{Name: []byte("c")}
	}
	return &mysql.Result{Resultset: &mysql.Resultset{Fields: fs, Values: rows}}
}

// vhC02Rows draws the rows (column a) one shard holds: 0..2 rows with values in -2..2.
func vhC02Rows(name string) []int64 {
	n := vs.IntRange(name+".rows", 0, 2)
	out := make([]int64, n)
	for i := range out {
		v := vs.Int64(name + ".a")
		vs.Assume(v >= -2 && v <= 2)
		out[i] = v
	}
	return out
}

//verif:harness prop=C02 bounds="select count(*), sum(a), max(a), min(a) from t -- and the count(distinct a) / sum(distinct a) forms -- over two shards holding 0..2 rows each with a symbolic in -2..2; each shard answers as MySQL would (SUM/MAX/MIN of no rows is NULL; integer SUM delivered as BIGINT, see note), merged by the real MergeSelectResult"
func Harness_C02_Aggregates() {
	distinct := vs.Choice("distinct", 2) == 1
	sql := "select count(*), sum(a), max(a), min(a) from t"
	if distinct {
		sql = "select count(distinct a), sum(distinct a), max(a), min(a) from t"
	}
	vs.TagB("distinctAggregate", distinct)
	p := vhC02Plan(sql)
	if p == nil {
		vs.Cover("C02/aggregate-statement-rejected")
		return
	}
	shards := [][]int64{vhC02Rows("s0"), vhC02Rows("s1")}
	var rs []*mysql.Result
	var all []int64
	for _, rows := range shards {
		var cnt, sum int64
		var mx, mn interface{}
		seen := map[int64]bool{}
		for _, a := range rows {
			all = append(all, a)
			if distinct && seen[a] {
				continue
			}
			seen[a] = true
			cnt++
			sum += a
		}
		for _, a := range rows {
			if mx == nil || a > mx.(int64) {
				mx = a
			}
			if mn == nil || a < mn.(int64) {
				mn = a
			}
		}
		var s interface{}
		if len(rows) > 0 {
			s = sum
		}
		rs = append(rs, vhC02Result(4, [][]interface{}{{cnt, s, mx, mn}}))
	}
	// one database holding every row
	var cnt, sum int64
	var mx, mn interface{}
	seen := map[int64]bool{}
	for _, a := range all {
		if mx == nil || a > mx.(int64) {
			mx = a
		}
		if mn == nil || a < mn.(int64) {
			mn = a
		}
		if distinct && seen[a] {
			continue
		}
		seen[a] = true
		cnt++
		sum += a
	}
	got, err := MergeSelectResult(p, p.stmt, rs)
	if err != nil {
		vs.Cover("C02/aggregate-merge-error")
		return
	}
	vs.Assert(len(got.Values) == 1 && len(got.Values[0]) == 4, "C02/aggregate-result-is-one-row")
	if len(got.Values) != 1 || len(got.Values[0]) != 4 {
		return
	}
	row := got.Values[0]
	c, ok := row[0].(int64)
	vs.Assert(ok && c == cnt, "C02/count-merged")
	if len(all) == 0 {
		vs.Assert(row[1] == nil && row[2] == nil && row[3] == nil, "C02/aggregates-of-no-rows-are-null")
		return
	}
	s, ok := row[1].(int64)
	vs.Assert(ok && s == sum, "C02/sum-merged")
	m1, ok1 := row[2].(int64)
	m2, ok2 := row[3].(int64)
	vs.Assert(ok1 && m1 == mx.(int64), "C02/max-merged")
	vs.Assert(ok2 && m2 == mn.(int64), "C02/min-merged")
	vs.Cover("C02/aggregates-done")
}

func vhC02Key(name string) interface{} {
	if vs.Choice(name+".null", 2) == 1 {
		return nil
	}
	n := vs.IntRange(name+".len", 0, 2)
	b := vs.Bytes(name, n)
	for i := range b {
		vs.Assume(vs.Or(vs.Or(b[i] == '+', b[i] == 'a'), vs.Or(b[i] == 'N', vs.Or(b[i] == 'U', b[i] == 'L'))))
	}
	return string(b)
}

func vhC02SameKey(a, b interface{}) bool {
	if a == nil || b == nil {
		return a == nil && b == nil
	}
	return a.(string) == b.(string)
}

//verif:harness prop=C02 bounds="select g1, g2, count(*) from t group by g1, g2 over two shards answering one row each: group values NULL or strings of 0..2 symbolic bytes over {+ a N U L}, counts symbolic 1..5; merged by the real MergeSelectResult"
func Harness_C02_GroupKeys() {
	p := vhC02Plan("select g1, g2, count(*) from t group by g1, g2")
	if p == nil {
		vs.Cover("C02/group-statement-rejected")
		return
	}
	a1, a2, b1, b2 := vhC02Key("a.g1"), vhC02Key("a.g2"), vhC02Key("b.g1"), vhC02Key("b.g2")
	ca, cb := int64(vs.SymRange("a.count", 1, 5)), int64(vs.SymRange("b.count", 1, 5))
	nf := p.GetColumnCount()
	row := func(g1, g2 interface{}, c int64) []interface{} {
		r := []interface{}{g1, g2, c}
		for len(r) < nf {
			r = append(r, g1) // columns the planner added for grouping repeat the group values
		}
		return r
	}
	rs := []*mysql.Result{vhC02Result(nf, [][]interface{}{row(a1, a2, ca)}), vhC02Result(nf, [][]interface{}{row(b1, b2, cb)})}
	same := vhC02SameKey(a1, b1) && vhC02SameKey(a2, b2)
	vs.TagB("sameGroup", same)
	got, err := MergeSelectResult(p, p.stmt, rs)
	if err != nil {
		vs.Cover("C02/group-merge-error")
		return
	}
	if same {
		vs.Assert(len(got.Values) == 1, "C02/rows-of-one-group-are-merged")
		if len(got.Values) == 1 {
			c, ok := got.Values[0][2].(int64)
			vs.Assert(ok && c == ca+cb, "C02/group-count-merged")
		}
	} else {
		vs.Assert(len(got.Values) == 2, "C02/rows-of-different-groups-stay-apart")
	}
	vs.Cover("C02/groups-done")
}

//verif:harness prop=C02 bounds="select distinct g1, g2 from t over two shards answering one row each (each shard's answer is already distinct): values NULL or strings of 0..2 symbolic bytes over {+ a N U L}; merged by the real MergeSelectResult: one row iff the two tuples are equal as SQL values"
func Harness_C02_Distinct() {
	p := vhC02Plan("select distinct g1, g2 from t")
	if p == nil {
		vs.Cover("C02/distinct-statement-rejected")
		return
	}
	a1, a2, b1, b2 := vhC02Key("a.g1"), vhC02Key("a.g2"), vhC02Key("b.g1"), vhC02Key("b.g2")
	nf := p.GetColumnCount()
	row := func(g1, g2 interface{}) []interface{} {
		r := []interface{}{g1, g2}
		for len(r) < nf {
			r = append(r, g1)
		}
		return r
	}
	rs := []*mysql.Result{vhC02Result(nf, [][]interface{}{row(a1, a2)}), vhC02Result(nf, [][]interface{}{row(b1, b2)})}
	same := vhC02SameKey(a1, b1) && vhC02SameKey(a2, b2)
	got, err := MergeSelectResult(p, p.stmt, rs)
	if err != nil {
		vs.Cover("C02/distinct-merge-error")
		return
	}
	if same {
		vs.Assert(len(got.Values) == 1, "C02/equal-rows-of-two-shards-are-one-distinct-row")
	} else {
		vs.Assert(len(got.Values) == 2, "C02/different-rows-stay-two-distinct-rows")
	}
	vs.Cover("C02/distinct-done")
}

//verif:harness prop=C02 bounds="select a from t order by a [desc] limit [offset,] count with offset 0..1 and count 1..2, over two shards holding 0..2 rows each with a symbolic in -2..2; each shard answers its rows sorted and cut to offset+count; merged by the real MergeSelectResult"
func Harness_C02_OrderLimit() {
	desc := vs.Choice("desc", 2) == 1
	off, cnt := vs.IntRange("offset", 0, 1), vs.IntRange("count", 1, 2)
	sql := "select a from t order by a"
	if desc {
		sql += " desc"
	}
	sql += " limit " + string('0'+byte(off)) + ", " + string('0'+byte(cnt))
	p := vhC02Plan(sql)
	if p == nil {
		vs.Cover("C02/order-statement-rejected")
		return
	}
	less := func(x, y int64) bool {
		if desc {
			return x > y
		}
		return x < y
	}
	sorted := func(in []int64) []int64 {
		out := append([]int64(nil), in...)
		for i := range out {
			for j := i + 1; j < len(out); j++ {
				if less(out[j], out[i]) {
					out[i], out[j] = out[j], out[i]
				}
			}
		}
		return out
	}
	nf := p.GetColumnCount()
	var rs []*mysql.Result
	var all []int64
	for _, name := range []string{"s0", "s1"} {
		rows := sorted(vhC02Rows(name))
		all = append(all, rows...)
		if len(rows) > off+cnt {
			rows = rows[:off+cnt]
		}
		var vals [][]interface{}
		for _, a := range rows {
			r := []interface{}{a}
			for len(r) < nf {
				r = append(r, a)
			}
			vals = append(vals, r)
		}
		rs = append(rs, vhC02Result(nf, vals))
	}
	want := sorted(all)
	if off >= len(want) {
		want = nil
	} else {
		want = want[off:]
		if len(want) > cnt {
			want = want[:cnt]
		}
	}
	got, err := MergeSelectResult(p, p.stmt, rs)
	if err != nil {
		vs.Cover("C02/order-merge-error")
		return
	}
	vs.Assert(len(got.Values) == len(want), "C02/limit-applied-to-the-merged-order")
	for i := 0; i < len(want) && i < len(got.Values); i++ {
		v, ok := got.Values[i][0].(int64)
		vs.Assert(ok && v == want[i], "C02/rows-in-global-order")
	}
	vs.Cover("C02/order-done")
}

//verif:harness prop=C02 bounds="select a from t UNION [ALL] select a from t [UNION [ALL] select a from t]: 2..3 operands whose (already merged) results hold 0..2 rows each (the third operand 0..1) with a one-letter string value a or b (enumerated: the values only meet in map keys); every combination of UNION / UNION ALL; merged by the real UnionPlan.MergeUnionResult and compared as a multiset with SQL's left-to-right UNION semantics"
func Harness_C02_Union() {
	nops := vs.IntRange("operands", 2, 3)
	sql := "select a from t"
	all := make([]bool, nops)
	for i := 1; i < nops; i++ {
		all[i] = vs.Choice("unionAll", 2) == 1
		if all[i] {
			sql += " union all select a from t"
		} else {
			sql += " union select a from t"
		}
	}
	rt := vhRouter(&models.Shard{DB: "db", Table: "t", Type: models.ShardHash, Key: "id", Locations: []int{1, 1}, Slices: []string{"s0", "s1"}})
	stmt, err := parser.ParseSQL(sql)
	vs.Assert(err == nil, "C02/union-fixture-parses")
	if err != nil {
		return
	}
	pl, err := BuildPlan(stmt, nil, "db", sql, rt, sequence.NewSequenceManager(), nil)
	if err != nil {
		vs.Cover("C02/union-rejected")
		return
	}
	up, ok := pl.(*UnionPlan)
	vs.Assert(ok, "C02/union-plan")
	if !ok {
		return
	}
	var rs []*mysql.Result
	// expected multiset, as counts of the values a, b
	var want [2]int
	for i := 0; i < nops; i++ {
		n := vs.IntRange("rows", 0, 2-i/2)
		var vals [][]interface{}
		var have [2]int
		for k := 0; k < n; k++ {
			c := vs.Choice("a", 2)
			vals = append(vals, []interface{}{string([]byte{byte('a' + c)})})
			have[c]++
		}
		rs = append(rs, vhC02Result(1, vals))
		for v := 0; v < 2; v++ {
			if i == 0 || all[i] {
				want[v] += have[v]
			} else if want[v]+have[v] > 0 { // UNION DISTINCT: the accumulated rows and the new ones, without duplicates
				want[v] = 1
			}
		}
	}
	got, err := up.MergeUnionResult(rs)
	if err != nil {
		vs.Cover("C02/union-merge-error")
		return
	}
	var cnt [2]int
	for _, row := range got.Values {
		a, ok := row[0].(string)
		vs.Assert(ok && (a == "a" || a == "b"), "C02/union-value-type")
		if !ok || (a != "a" && a != "b") {
			return
		}
		cnt[a[0]-'a']++
	}
	for v := 0; v < 2; v++ {
		vs.Assert(cnt[v] == want[v], "C02/union-result-is-the-sql-union-of-the-operands")
	}
	vs.Cover("C02/union-done")
}

//verif:harness prop=C02 maporder=both noreplay=1 bounds="(engine-only: Go's map iteration order cannot be forced natively; the engine explores the insertion order and its reverse) select g, count(*) from t group by g order by g [desc] over two shards: shard 0 answers 0..3 groups out of {a, b, c} in order, shard 1 answers 0..3 groups likewise, counts 1 and 2; the merged result must list every group once, with the counts added, in the requested order"
func Harness_C02_GroupOrder() {
	desc := vs.Choice("desc", 2) == 1
	sql := "select g, count(*) from t group by g order by g"
	if desc {
		sql += " desc"
	}
	p := vhC02Plan(sql)
	if p == nil {
		vs.Cover("C02/group-order-rejected")
		return
	}
	nf := p.GetColumnCount()
	letters := []string{"a", "b", "c"}
	if desc {
		letters = []string{"c", "b", "a"}
	}
	total := map[string]int64{}
	var rs []*mysql.Result
	for s := 0; s < 2; s++ {
		var vals [][]interface{}
		for _, g := range letters { // each shard answers in the requested order
			if vs.Choice("present", 2) == 0 {
				continue
			}
			c := int64(1 + s) // concrete: the addition of counts is Harness_C02_GroupKeys' subject
			total[g] += c
			r := []interface{}{g, c}
			for len(r) < nf {
				r = append(r, g)
			}
			vals = append(vals, r)
		}
		rs = append(rs, vhC02Result(nf, vals))
	}
	got, err := MergeSelectResult(p, p.stmt, rs)
	if err != nil {
		vs.Cover("C02/group-order-merge-error")
		return
	}
	var want []string
	for _, g := range letters {
		if _, ok := total[g]; ok {
			want = append(want, g)
		}
	}
	vs.Assert(len(got.Values) == len(want), "C02/every-group-once")
	for i := 0; i < len(want) && i < len(got.Values); i++ {
		g, ok := got.Values[i][0].(string)
		vs.Assert(ok && g == want[i], "C02/groups-in-the-requested-order")
		c, ok := got.Values[i][1].(int64)
		vs.Assert(ok && c == total[want[i]], "C02/group-count-merged")
	}
	vs.Cover("C02/group-order-done")
}
