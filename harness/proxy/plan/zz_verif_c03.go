package plan

// C03 — every inserted row is stored once, where lookups will find it.

import (
	"fmt"
	"strconv"
	"strings"

	"github.com/XiaoMi/Gaea/models"
	"github.com/XiaoMi/Gaea/parser"
	"github.com/XiaoMi/Gaea/parser/ast"
	"github.com/XiaoMi/Gaea/parser/format"
	driver "github.com/XiaoMi/Gaea/parser/tidb-types/parser_driver"
	types "github.com/XiaoMi/Gaea/parser/tidb-types"
	"github.com/XiaoMi/Gaea/proxy/sequence"
	vs "github.com/XiaoMi/Gaea/zz_verifsym"
)

// literals whose value is symbolic are written as a token instead of their digits
// (the engine does not model number formatting); everything else is written as the parser does.
var vhC03Tokens = map[*driver.ValueExpr]string{}

func vhC03Restore(n *driver.ValueExpr, ctx *format.RestoreCtx) error {
	if tok, ok := vhC03Tokens[n]; ok {
		ctx.WritePlain(tok)
		return nil
	}
	switch n.Kind() {
	case types.KindNull:
		ctx.WriteKeyWord("NULL")
	case types.KindInt64:
		ctx.WritePlain(strconv.FormatInt(n.GetInt64(), 10))
	case types.KindUint64:
		ctx.WritePlain(strconv.FormatUint(n.GetUint64(), 10))
	default:
		ctx.WriteString(n.GetString())
	}
	return nil
}

//verif:harness prop=C03 bounds="INSERT / REPLACE ... VALUES with 1..4 rows and INSERT ... SET, parsed by the real parser, on a range rule (3 tables of 100 rows), a hash rule and a mod rule (4 tables); each row's sharding value is a literal (symbolic int64; range rule: -5..305), a signed literal, an arithmetic expression, NULL, a quoted number or a function call (four-row statements: literals only)"
//verif:mock (*github.com/XiaoMi/Gaea/parser/tidb-types/parser_driver.ValueExpr).Restore vhC03Restore
func Harness_C03_Insert() {
	vhC03Tokens = map[*driver.ValueExpr]string{}
	var r *models.Shard
	ruleKind := vs.Choice("rule", 3)
	switch ruleKind {
	case 0:
		r = &models.Shard{DB: "db", Table: "t", Type: models.ShardRange, Key: "id", Locations: []int{2, 1}, Slices: []string{"s0", "s1"}, TableRowLimit: 100}
	case 1:
		r = &models.Shard{DB: "db", Table: "t", Type: models.ShardHash, Key: "id", Locations: []int{2, 2}, Slices: []string{"s0", "s1"}}
	case 2:
		r = &models.Shard{DB: "db", Table: "t", Type: models.ShardMod, Key: "id", Locations: []int{2, 2}, Slices: []string{"s0", "s1"}}
	}
	rt := vhRouter(r)
	setForm := vs.Choice("form", 3) == 2
	verb := []string{"insert", "replace", "insert"}[vs.Choice("verb", 2)]
	nrows := 1
	if !setForm {
		nrows = vs.IntRange("rows", 1, 4)
	}
	forms := make([]int, nrows)
	var rows []string
	for i := range forms {
		if nrows < 4 { // four rows: literals only (the rows then spread over the tables in every order)
			forms[i] = vs.Choice("valueForm", 6)
		}
		idText := []string{"1001", "-1001", "1+1", "NULL", "'12'", "now()"}[forms[i]]
		if setForm {
			rows = append(rows, fmt.Sprintf("id = %s, a = %d", idText, 7000+i))
		} else {
			rows = append(rows, fmt.Sprintf("(%s, %d)", idText, 7000+i))
		}
	}
	sql := verb + " into t (id, a) values " + strings.Join(rows, ", ")
	if setForm {
		sql = "insert into t set " + rows[0]
	}
	stmt, err := parser.ParseSQL(sql)
	vs.Assert(err == nil, "C03/fixture-parses")
	if err != nil {
		return
	}
	ins := stmt.(*ast.InsertStmt)
	// give the plain literals symbolic values
	keys := make([]interface{}, nrows)
	evaluable := true
	for i := range forms {
		var e ast.ExprNode
		if setForm {
			e = ins.Setlist[0].Expr
		} else {
			e = ins.Lists[i][0]
		}
		switch forms[i] {
		case 0:
			ve := e.(*driver.ValueExpr)
			k := vs.Int64("key")
			if ruleKind == 0 {
				vs.Assume(k >= -5 && k <= 305)
			}
			ve.SetInt64(k)
			vhC03Tokens[ve] = "#key" + strconv.Itoa(i) + "#"
			keys[i] = k
		case 4:
			keys[i] = "12"
		default:
			evaluable = false
		}
	}
	rule, _ := rt.GetShardRule("db", "t")
	p, err := BuildPlan(stmt, nil, "db", sql, rt, sequence.NewSequenceManager(), nil)
	if !evaluable {
		vs.Assert(err != nil, "C03/unroutable-sharding-value-is-rejected")
		return
	}
	// where a point query on each row's key is routed
	targets := make([]int, nrows)
	routable := true
	for i, k := range keys {
		idx, ferr, rej := vhFindKey(rule, k)
		if ferr != nil || rej || !vhContains(rule.GetSubTableIndexes(), idx) {
			routable = false
		}
		targets[i] = vs.Concrete(idx)
	}
	if !routable {
		vs.Assert(err != nil, "C03/out-of-range-key-is-rejected")
		return
	}
	vs.Assert(err == nil, "C03/routable-insert-accepted")
	if err != nil {
		return
	}
	ip, ok := p.(*InsertPlan)
	vs.Assert(ok, "C03/insert-plan")
	if !ok {
		return
	}
	for i := range keys {
		marker := strconv.Itoa(7000 + i)
		written := 0
		for slice, dbs := range ip.sqls {
			for _, sqls := range dbs {
				for _, text := range sqls {
					if !strings.Contains(text, marker) {
						continue
					}
					written++
					vs.Assert(strings.Contains(text, fmt.Sprintf("`t_%04d`", targets[i])), "C03/row-written-to-the-table-its-key-routes-to")
					vs.Assert(slice == rule.GetSlice(rule.GetSliceIndexFromTableIndex(targets[i])), "C03/row-written-on-the-slice-of-its-table")
				}
			}
		}
		vs.Assert(written == 1, "C03/row-written-exactly-once")
	}
	vs.Cover("C03/inserted")
}

// vhFindKey is rule.FindTableIndex with the key-format panics of the router turned into a rejection.
func vhFindKey(rule interface {
	FindTableIndex(key interface{}) (int, error)
}, key interface{}) (idx int, err error, rejected bool) {
	defer func() {
		if recover() != nil {
			rejected = true
		}
	}()
	idx, err = rule.FindTableIndex(key)
	return
}

//verif:harness prop=C03 bounds="INSERT / REPLACE into a linked (child) table lk whose sharding key uid differs from its parent's key id (parent t: hash rule, 4 tables): VALUES with 1..2 rows, INSERT ... SET; both id and uid are symbolic int64 literals; the row must be written once, into the sub table that the linked rule gives to its uid"
//verif:mock (*github.com/XiaoMi/Gaea/parser/tidb-types/parser_driver.ValueExpr).Restore vhC03Restore
func Harness_C03_LinkedInsert() {
	vhC03Tokens = map[*driver.ValueExpr]string{}
	rt := vhRouter(
		&models.Shard{DB: "db", Table: "t", Type: models.ShardHash, Key: "id", Locations: []int{2, 2}, Slices: []string{"s0", "s1"}},
		&models.Shard{DB: "db", Table: "lk", Type: models.ShardLinked, Key: "uid", ParentTable: "t"},
	)
	setForm := vs.Choice("form", 3) == 2
	nrows := 1
	if !setForm {
		nrows = vs.IntRange("rows", 1, 2)
	}
	var rows []string
	for i := 0; i < nrows; i++ {
		if setForm {
			rows = append(rows, fmt.Sprintf("id = 1001, uid = 2001, a = %d", 7000+i))
		} else {
			rows = append(rows, fmt.Sprintf("(1001, 2001, %d)", 7000+i))
		}
	}
	sql := "insert into lk (id, uid, a) values " + strings.Join(rows, ", ")
	if setForm {
		sql = "insert into lk set " + rows[0]
	}
	stmt, err := parser.ParseSQL(sql)
	vs.Assert(err == nil, "C03/fixture-parses")
	if err != nil {
		return
	}
	ins := stmt.(*ast.InsertStmt)
	uids := make([]int64, nrows)
	for i := 0; i < nrows; i++ {
		var idE, uidE ast.ExprNode
		if setForm {
			idE, uidE = ins.Setlist[0].Expr, ins.Setlist[1].Expr
		} else {
			idE, uidE = ins.Lists[i][0], ins.Lists[i][1]
		}
		id, uid := vs.Int64("id"), vs.Int64("uid")
		idE.(*driver.ValueExpr).SetInt64(id)
		uidE.(*driver.ValueExpr).SetInt64(uid)
		vhC03Tokens[idE.(*driver.ValueExpr)] = "#id" + strconv.Itoa(i) + "#"
		vhC03Tokens[uidE.(*driver.ValueExpr)] = "#uid" + strconv.Itoa(i) + "#"
		uids[i] = uid
	}
	rule, _ := rt.GetShardRule("db", "lk")
	p, err := BuildPlan(stmt, nil, "db", sql, rt, sequence.NewSequenceManager(), nil)
	vs.Assert(err == nil, "C03/routable-insert-accepted")
	if err != nil {
		return
	}
	ip, ok := p.(*InsertPlan)
	vs.Assert(ok, "C03/insert-plan")
	if !ok {
		return
	}
	for i := range uids {
		idx, ferr := rule.FindTableIndex(uids[i])
		vs.Assert(ferr == nil, "C03/fixture")
		target := vs.Concrete(idx)
		marker := strconv.Itoa(7000 + i)
		written := 0
		for slice, dbs := range ip.sqls {
			for _, sqls := range dbs {
				for _, text := range sqls {
					if !strings.Contains(text, marker) {
						continue
					}
					written++
					vs.Assert(strings.Contains(text, fmt.Sprintf("`lk_%04d`", target)), "C03/row-written-to-the-table-its-key-routes-to")
					vs.Assert(slice == rule.GetSlice(rule.GetSliceIndexFromTableIndex(target)), "C03/row-written-on-the-slice-of-its-table")
				}
			}
		}
		vs.Assert(written == 1, "C03/row-written-exactly-once")
	}
	vs.Cover("C03/linked-inserted")
}
