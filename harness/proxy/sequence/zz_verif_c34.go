package sequence

// C34 — global sequence values are never issued twice.

import (
	"errors"
	"fmt"

	"github.com/XiaoMi/Gaea/backend"
	"github.com/XiaoMi/Gaea/mysql"
	vs "github.com/XiaoMi/Gaea/zz_verifsym"
)

// vhSeqSlice builds a slice whose master pool answers the block-fetch statement with reply().
func vhSeqSlice(reply func() (string, error, bool)) (*backend.Slice, *backend.VhPool) {
	pool := &backend.VhPool{Name: "master", Master: true, Ledger: &backend.VhLedger{}}
	pool.ExecResult = func(c *backend.VhConn, sql string) (*mysql.Result, error) {
		s, err, empty := reply()
		if err != nil {
			return nil, err
		}
		rs := &mysql.Resultset{Fields: []*mysql.Field{{Name: []byte("seq_val")}}}
		if !empty {
			rs.Values = [][]interface{}{{s}}
		}
		return &mysql.Result{Resultset: rs}, nil
	}
	node := &backend.NodeInfo{Address: "master", ConnPool: pool, Status: backend.StatusUp}
	return &backend.Slice{Namespace: "ns", Master: &backend.DBInfo{Nodes: []*backend.NodeInfo{node}}}, pool
}

func vhDigit(name string) (byte, int64) {
	d := vs.Byte(name)
	vs.Assume(d >= '0' && d <= '9')
	return d, int64(d - '0')
}

// STEP: one NextSeq from an arbitrary cached block, with an arbitrary reply to a block fetch.
//
// Inv: curr <= max; (curr, max] is the unissued rest of a block the table granted to this
// proxy; every value issued so far is <= curr.
//
//verif:harness prop=C34 bounds="cached block: curr, max symbolic (0 <= curr <= max <= 2^40); fetch reply: 'cc,i' / 'cc,ii' with symbolic digits, one field, non-numeric increment, zero or negative increment, the missing-row reply '-999999999,null', empty result, execute error, pool error; no value limit"
func Harness_C34_NextSeqStep() {
	curr := int64(vs.SymRange("curr", 0, 1<<40))
	max := int64(vs.SymRange("max", 0, 1<<40))
	vs.Assume(curr <= max)
	kind := vs.Choice("reply", 9)
	vs.TagI("reply", int64(kind))
	var c, inc int64
	var text string
	wellFormed := false
	switch kind {
	case 0, 1: // cc,i  /  cc,ii
		d1, v1 := vhDigit("c1")
		d2, v2 := vhDigit("c2")
		e1, w1 := vhDigit("i1")
		c, inc = v1*10+v2, w1
		b := []byte{d1, d2, ',', e1}
		if kind == 1 {
			e2, w2 := vhDigit("i2")
			inc = w1*10 + w2
			b = append(b, e2)
		}
		text = string(b)
		wellFormed = true
	case 2: // one field only
		d1, _ := vhDigit("c1")
		text = string([]byte{d1, '7'})
	case 3: // non-numeric increment
		d1, _ := vhDigit("c1")
		x := vs.Byte("junk")
		vs.Assume(x < '0' || x > '9')
		vs.Assume(x != ',' && x != '+' && x != '-')
		text = string([]byte{d1, ',', x})
	case 4: // negative increment
		d1, _ := vhDigit("c1")
		e1, _ := vhDigit("i1")
		text = string([]byte{d1, ',', '-', e1})
	case 5: // the reply of mycat_seq_nextval for a sequence that has no row
		text = "-999999999,null"
	}
	fetches := 0
	slice, pool := vhSeqSlice(func() (string, error, bool) {
		fetches++
		switch kind {
		case 6:
			return "", nil, true
		case 7:
			return "", errors.New("execute failed"), false
		}
		return text, nil, false
	})
	if kind == 8 {
		pool.GetFails = func() bool { return true }
	}
	s := NewMySQLSequence(slice, "seq", "id", 0)
	s.curr, s.max = curr, max

	v, err := s.NextSeq()

	if vs.Fork(curr < max) {
		// served from the cached block: no fetch, the next value of the block
		vs.Assert(err == nil && v == curr+1, "C34/step/served-from-cached-block")
		vs.Assert(fetches == 0, "C34/step/no-fetch-while-block-lasts")
		vs.Cover("C34/step/cached")
		return
	}
	// block exhausted: a fetch decides
	granted := wellFormed && inc > 0
	if err == nil {
		vs.Assert(granted, "C34/step/value-only-from-a-granted-block")
		vs.Assert(vs.And(v > c, v <= c+inc), "C34/step/value-inside-the-granted-block")
		vs.Assert(s.curr == v && s.max == c+inc, "C34/step/inv-block-bookkeeping")
		vs.Cover("C34/step/fetched")
	} else {
		vs.Assert(!granted, "C34/step/granted-block-is-used")
		// a failed request must leave the cached state unable to issue a value without a new fetch
		vs.Assert(s.curr >= s.max, "C34/step/inv-failed-fetch-leaves-no-phantom-block")
		vs.Cover("C34/step/failed")
	}
	// connections are returned
	vs.Assert(pool.Taken == pool.Returned, "C34/step/fetch-connection-returned")
}

// BMC twin: 2 proxies over one table, every interleaving of k requests, a fault on any fetch.
//
//verif:harness prop=C34 bounds="2 proxies, table start 0 or 100, increment 1..3 (enumerated), every interleaving of k=4 (quick) / 6 (thorough) requests, each block fetch may fail (execute error)"
func Harness_C34_TwoProxiesBMC() {
	inc := int64(vs.IntRange("increment", 1, 3))
	table := int64(vs.Choice("start", 2) * 100)
	mk := func() *MySQLSequence {
		slice, _ := vhSeqSlice(func() (string, error, bool) {
			if vs.Bool("fetchFails") {
				return "", errors.New("execute failed"), false
			}
			table += inc
			return fmt.Sprintf("%d,%d", table, inc), nil, false
		})
		return NewMySQLSequence(slice, "seq", "id", 0)
	}
	proxies := []*MySQLSequence{mk(), mk()}
	last := []int64{-1 << 62, -1 << 62}
	var issued []int64
	k := vs.Pick(4, 6)
	for step := 0; step < k; step++ {
		p := vs.Choice("proxy", 2)
		v, err := proxies[p].NextSeq()
		if err != nil {
			continue
		}
		vs.Assert(v > last[p], "C34/bmc/strictly-increasing-per-proxy")
		last[p] = v
		for _, w := range issued {
			vs.Assert(w != v, "C34/bmc/never-issued-twice")
		}
		issued = append(issued, v)
	}
	vs.Cover("C34/bmc/done")
}
