package router

// C07 — concurrent sessions plan independently of each other.
//
// The engine's scheduler switches goroutines at synchronisation operations only, so a data race
// between two plain field accesses is not explored as such. What is checked is its sequential
// shadow: a routing call of one session must not write to the router shared by all sessions, and
// a rule handed to one session must still say the same after another session has routed.

import (
	"github.com/XiaoMi/Gaea/models"
	vs "github.com/XiaoMi/Gaea/zz_verifsym"
)

//verif:harness prop=C07 bounds="one router (a hash rule on db.t, default slice s0) shared by two sessions; session A routes (db A, table) with GetRule, session B routes (db B, table) in between, then A reads its rule; dbs from {db, db2, db3}, tables from {t (sharded), u, v (unsharded)}; interleaving at the granularity of whole GetRule calls"
func Harness_C07_SharedRouter() {
	sl := func(name string) *models.Slice {
		return &models.Slice{Name: name, UserName: "u", Password: "p", Master: "127.0.0.1:3306", Capacity: 1, MaxCapacity: 1}
	}
	ns := &models.Namespace{Name: "ns", AllowedDBS: map[string]bool{"db": true},
		Users:        []*models.User{{UserName: "u", Password: "p", Namespace: "ns", RWFlag: models.ReadWrite, RWSplit: models.ReadWriteSplit}},
		Slices:       []*models.Slice{sl("s0"), sl("s1")},
		DefaultSlice: "s0",
		ShardRules:   []*models.Shard{{DB: "db", Table: "t", Type: models.ShardHash, Key: "id", Locations: []int{1, 1}, Slices: []string{"s0", "s1"}}},
	}
	rt, err := NewRouter(ns)
	vs.Assert(err == nil, "C07/fixture")
	if err != nil {
		return
	}
	dbs := []string{"db", "db2", "db3"}
	tables := []string{"t", "u", "v"}
	dbA, tA := dbs[vs.Choice("A.db", 3)], tables[vs.Choice("A.table", 3)]
	dbB, tB := dbs[vs.Choice("B.db", 3)], tables[vs.Choice("B.table", 3)]
	aUnsharded := !(dbA == "db" && tA == "t")
	bUnsharded := !(dbB == "db" && tB == "t")
	vs.TagB("bothUnshardedDifferentDB", aUnsharded && bUnsharded && dbA != dbB)
	vs.TagB("unshardedRouted", aUnsharded || bUnsharded)

	// shared state before / after one routing call
	before := *(rt.defaultRule.(*BaseRule))
	ruleA := rt.GetRule(dbA, tA)
	after := *(rt.defaultRule.(*BaseRule))
	vs.Assert(before.db == after.db && before.table == after.table && before.ruleType == after.ruleType, "C07/routing-does-not-write-to-the-shared-router")
	// alone: what session A's rule says when nobody else routes
	aloneDB, aloneSlice := ruleA.GetDB(), ruleA.GetSlice(0)

	// session B routes in between
	_ = rt.GetRule(dbB, tB)
	vs.Assert(ruleA.GetDB() == aloneDB && ruleA.GetSlice(0) == aloneSlice, "C07/a-session's-rule-is-what-it-would-be-alone")
	vs.Cover("C07/done")
}
