package router

// C10 — accepted configurations load and give an unambiguous routing table.

import (
	"github.com/XiaoMi/Gaea/models"
	vs "github.com/XiaoMi/Gaea/zz_verifsym"
)

func vhC10Namespace() *models.Namespace {
	sl := func(name string) *models.Slice {
		return &models.Slice{Name: name, UserName: "u", Password: "p", Master: "127.0.0.1:3306", Capacity: 1, MaxCapacity: 1}
	}
	return &models.Namespace{
		Name:         "ns",
		AllowedDBS:   map[string]bool{"db": true},
		Users:        []*models.User{{UserName: "u", Password: "p", Namespace: "ns", RWFlag: models.ReadWrite, RWSplit: models.ReadWriteSplit}},
		Slices:       []*models.Slice{sl("s0"), sl("s1")},
		DefaultSlice: "s0",
	}
}

// vhC10Verify runs the control plane's validation; a panic in it is not an acceptance.
func vhC10Verify(n *models.Namespace) (accepted bool) {
	defer func() {
		if recover() != nil {
			accepted = false
		}
	}()
	return n.Verify() == nil
}

// vhC10Table asserts that the loaded rule lists each physical table once, in exactly one slice.
func vhC10Table(r *BaseRule) {
	for i, a := range r.subTableIndexes {
		for j := 0; j < i; j++ {
			vs.Assert(r.subTableIndexes[j] != a, "C10/each-table-listed-once")
		}
		s, ok := r.tableToSlice[a]
		vs.Assert(ok && s >= 0 && s < len(r.slices), "C10/each-table-in-one-slice")
	}
	vs.Assert(len(r.tableToSlice) == len(r.subTableIndexes), "C10/slice-map-covers-the-listed-tables-only")
}

//verif:harness prop=C10 bounds="one hash / mod / range / global rule; locations of length 0..2 (quick) or 0..3 (thorough) with entries symbolic in -2..3; slice list of the same length or one longer, possibly naming an unknown slice; table_row_limit symbolic in -1..2; default slice one of two slices, empty or unknown; sharding key any int64"
func Harness_C10_Locations() {
	n := vhC10Namespace()
	n.DefaultSlice = []string{"s0", "s1", "", "zz"}[vs.Choice("defaultSlice", 4)]
	tp := []string{models.ShardHash, models.ShardMod, models.ShardRange, models.ShardGlobal}[vs.Choice("type", 4)]
	ll := vs.IntRange("locations.len", 0, vs.Pick(2, 3))
	locs := make([]int, ll)
	minLoc, sum := 3, 0
	for i := range locs {
		v := vs.Int("location")
		vs.Assume(v >= -2 && v <= 3)
		locs[i] = v
		minLoc = vs.IteInt(v < minLoc, v, minLoc)
		sum += v
	}
	names := []string{"s0", "s1", "s0", "s1"}
	sl := append([]string{}, names[:ll+vs.Choice("extraSlice", 2)]...)
	if bad := vs.IntRange("unknownSliceAt", -1, len(sl)-1); bad >= 0 {
		sl[bad] = "zz"
	}
	lim := vs.Int("rowLimit")
	vs.Assume(lim >= -1 && lim <= 2)
	n.ShardRules = []*models.Shard{{DB: "db", Table: "t", Type: tp, Key: "id", Locations: locs, Slices: sl, TableRowLimit: lim}}
	vs.TagB("emptyDefaultSlice", n.DefaultSlice == "")
	vs.TagB("globalRuleWithMoreSliceEntriesThanTheNamespace", tp == models.ShardGlobal && len(sl) > 2)
	vs.TagB("negativeLocation", minLoc < 0)
	vs.TagB("noTables", sum <= 0)
	if !vhC10Verify(n) {
		vs.Cover("C10/rejected")
		return
	}
	rt, err := NewRouter(n)
	vs.Assert(err == nil, "C10/accepted-configuration-loads")
	if err != nil {
		return
	}
	r, ok := rt.rules["db"]["t"].(*BaseRule)
	vs.Assert(ok, "C10/rule-present")
	if !ok {
		return
	}
	vhC10Table(r)
	if tp != models.ShardGlobal {
		idx, ferr, rej := vhC10Find(r.shard, vs.Int64("key"))
		if ferr == nil && !rej {
			_, listed := r.tableToSlice[idx]
			vs.Assert(listed, "C10/sharding-function-names-a-listed-table")
		}
	}
	vs.Cover("C10/loaded")
}

// vhC10Find is vhFind that also reports a runtime panic of the sharding function as naming no listed table.
func vhC10Find(s Shard, key interface{}) (idx int, err error, rejected bool) {
	defer func() {
		if x := recover(); x != nil {
			if _, ok := x.(KeyError); ok {
				rejected = true
				return
			}
			vs.Fail("C10/sharding-function-panics")
			rejected = true
		}
	}()
	idx, err = s.FindForKey(key)
	return
}

//verif:harness prop=C10 bounds="two rules: a hash rule on table t or T, and a second hash / global / linked rule whose db is db or db2, table one of t T u and parent table one of t T x"
func Harness_C10_Names() {
	n := vhC10Namespace()
	n.AllowedDBS["db2"] = true
	t1 := []string{"t", "T"}[vs.Choice("table1", 2)]
	tp2 := []string{models.ShardHash, models.ShardGlobal, models.ShardLinked}[vs.Choice("type2", 3)]
	db2 := []string{"db", "db2"}[vs.Choice("db2", 2)]
	t2 := []string{"t", "T", "u"}[vs.Choice("table2", 3)]
	parent := []string{"t", "T", "x"}[vs.Choice("parent", 3)]
	r1 := &models.Shard{DB: "db", Table: t1, Type: models.ShardHash, Key: "id", Locations: []int{1, 1}, Slices: []string{"s0", "s1"}}
	r2 := &models.Shard{DB: db2, Table: t2, Type: tp2, Key: "id", Locations: []int{1, 1}, Slices: []string{"s0", "s1"}}
	if tp2 == models.ShardLinked {
		r2.ParentTable = parent
		r2.Locations, r2.Slices = nil, nil
	}
	n.ShardRules = []*models.Shard{r1, r2}
	if vs.Choice("linkedFirst", 2) == 1 {
		n.ShardRules = []*models.Shard{r2, r1}
	}
	vs.TagB("caseVariants", t1 != t2 && (t2 == "t" || t2 == "T") && db2 == "db")
	if !vhC10Verify(n) {
		vs.Cover("C10/names-rejected")
		return
	}
	rt, err := NewRouter(n)
	vs.Assert(err == nil, "C10/accepted-configuration-loads")
	if err != nil {
		return
	}
	// both rules are present under their own (lower-cased) names
	a, ok1 := rt.rules["db"][vhC10Lower(t1)]
	b, ok2 := rt.rules[db2][vhC10Lower(t2)]
	vs.Assert(ok1 && ok2 && a != b, "C10/every-accepted-rule-is-loaded")
	vs.Cover("C10/names-loaded")
}

func vhC10Lower(s string) string {
	if s == "T" {
		return "t"
	}
	return s
}

func vhC10Digit(name string, lo, hi byte) byte {
	d := vs.Byte(name)
	vs.Assume(d >= lo && d <= hi)
	return d
}

//verif:harness prop=C10 bounds="one date_year / date_month / date_day rule with 1..2 date ranges, each A or A-B; year: A, B = 201X, X a symbolic digit 0..4; month: 20180X (X symbolic 0..4) or 20181X (X symbolic 0..3); day: A-B from nine concrete forms (the day arithmetic formats dates, which the engine runs concretely only); slice list of the same length or one longer"
func Harness_C10_DateRanges() {
	n := vhC10Namespace()
	k := vs.Choice("type", 3)
	tp := []string{models.ShardYear, models.ShardMonth, models.ShardDay}[k]
	nr := vs.IntRange("ranges", 1, 2)
	point := func() []byte {
		if k == 0 {
			return []byte{'2', '0', '1', vhC10Digit("digit", '0', '4')}
		}
		if vs.Choice("monthTens", 2) == 0 {
			return []byte{'2', '0', '1', '8', '0', vhC10Digit("digit", '0', '4')}
		}
		return []byte{'2', '0', '1', '8', '1', vhC10Digit("digit", '0', '3')}
	}
	var dr []string
	for i := 0; i < nr; i++ {
		if k == 2 {
			days := []string{"20180101", "20180103", "20180101-20180103", "20180103-20180105", "20180103-20180101", "20180104-20180106", "20180230", "20180228-20180301", "2018011"}
			dr = append(dr, days[vs.Choice("day", len(days))])
			continue
		}
		s := point()
		if vs.Choice("span", 2) == 1 {
			s = append(append(s, '-'), point()...)
		}
		dr = append(dr, string(s))
	}
	sl := []string{"s0", "s1", "s0"}[:nr+vs.Choice("extraSlice", 2)]
	n.ShardRules = []*models.Shard{{DB: "db", Table: "t", Type: tp, Key: "d", DateRange: dr, Slices: sl}}
	if !vhC10Verify(n) {
		vs.Cover("C10/date-rejected")
		return
	}
	rt, err := NewRouter(n)
	vs.Assert(err == nil, "C10/accepted-configuration-loads")
	if err != nil {
		return
	}
	r, ok := rt.rules["db"]["t"].(*BaseRule)
	vs.Assert(ok, "C10/rule-present")
	if ok {
		vhC10Table(r)
	}
	vs.Cover("C10/date-loaded")
}

// vhC10Load runs NewRouter; a panic while loading is a configuration that does not load.
func vhC10Load(n *models.Namespace) (rt *Router, err error, panicked bool) {
	defer func() {
		if recover() != nil {
			panicked = true
		}
	}()
	rt, err = NewRouter(n)
	return
}

//verif:harness prop=C10 bounds="one mycat_mod / mycat_long / mycat_string / mycat_murmur / mycat_padding_mod / global rule; locations [1,1] or [2,2]; databases from ten forms (ranges, duplicates, empty); partition count/length from eight pairs (negative and zero entries included); hash slice, seed, virtual bucket times and padding parameters from small sets; sharding key any int64 (mod, long)"
func Harness_C10_Mycat() {
	n := vhC10Namespace()
	tp := []string{models.ShardMycatMod, models.ShardMycatLong, models.ShardMycatString, models.ShardMycatMURMUR, models.ShardMycatPaddingMod, models.ShardGlobal}[vs.Choice("type", 6)]
	locs := [][]int{{1, 1}, {2, 2}}[vs.Choice("locations", 2)]
	dbs := [][]string{{"db_[0-1]"}, {"db_[0-3]"}, {"a", "a"}, {"a", "b"}, {"db_[1-1]"}, {}, {"a", "b", "a", "c"}, {"a", "a", "b", "c"}, {"a", "b", "a", "a"}, {"a", "b", "b", "b"}}[vs.Choice("databases", 10)]
	r := &models.Shard{DB: "db", Table: "t", Type: tp, Key: "id", Locations: locs, Slices: []string{"s0", "s1"}, Databases: dbs}
	vs.TagB("duplicateDatabaseOnOneSlice", len(dbs) == 4 && dbs[0] == dbs[1])
	switch tp {
	case models.ShardMycatLong, models.ShardMycatString:
		pc := [][2]string{{"2", "512"}, {"1,1", "512,512"}, {"1,1", "2048,-1024"}, {"4", "256"}, {"3,-1", "512,0"}, {"2,2", "256,256"}, {"1,1", "1024,0"}, {"x", "1"}}[vs.Choice("partition", 8)]
		r.PartitionCount, r.PartitionLength = pc[0], pc[1]
		r.HashSlice = []string{"2", "1:2", ":", "-1:", "1:2:3"}[vs.Choice("hashSlice", 5)]
	case models.ShardMycatMURMUR:
		r.Seed = []string{"0", "x"}[vs.Choice("seed", 2)]
		r.VirtualBucketTimes = []string{"", "2", "0", "-1"}[vs.Choice("vbt", 4)]
		if r.VirtualBucketTimes == "" {
			r.VirtualBucketTimes = "2" // the default of 160 only makes the (concrete) ring construction longer
		}
	case models.ShardMycatPaddingMod:
		r.PadFrom = []string{"0", "1", "2"}[vs.Choice("padFrom", 3)]
		r.PadLength = []string{"18", "0", "2"}[vs.Choice("padLength", 3)]
		r.ModBegin = []string{"10", "-1", "16"}[vs.Choice("modBegin", 3)]
		r.ModEnd = "16"
	}
	n.ShardRules = []*models.Shard{r}
	if !vhC10Verify(n) {
		vs.Cover("C10/mycat-rejected")
		return
	}
	rt, err, panicked := vhC10Load(n)
	vs.Assert(!panicked, "C10/loading-an-accepted-configuration-panics")
	if panicked {
		return
	}
	vs.Assert(err == nil, "C10/accepted-configuration-loads")
	if err != nil {
		return
	}
	br, ok := rt.rules["db"]["t"].(*BaseRule)
	vs.Assert(ok, "C10/rule-present")
	if !ok {
		return
	}
	vhC10Table(br)
	// the physical table of index i is <database i>.<table> on its slice: the same database twice on one slice is one table listed twice
	// (global rules are excluded: the stock kingshard-style configuration lists the logical database once per location entry)
	for i, a := range br.mycatDatabases {
		for j := 0; j < i && tp != models.ShardGlobal; j++ {
			vs.Assert(br.mycatDatabases[j] != a || br.tableToSlice[i] != br.tableToSlice[j], "C10/each-physical-table-listed-once")
		}
	}
	if tp == models.ShardMycatMod || tp == models.ShardMycatLong {
		idx, ferr, rej := vhC10Find(br.shard, vs.Int64("key"))
		if ferr == nil && !rej {
			_, listed := br.tableToSlice[idx]
			vs.Assert(listed, "C10/sharding-function-names-a-listed-table")
		}
	}
	vs.Cover("C10/mycat-loaded")
}
