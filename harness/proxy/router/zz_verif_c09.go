package router

// C09 — range and calendar rules place each key in its configured interval.

import (
	"fmt"
	"time"

	"github.com/XiaoMi/Gaea/core/errors"
	vs "github.com/XiaoMi/Gaea/zz_verifsym"
)

// vhFind calls FindForKey; a KeyError panic (the code's way of rejecting a key,
// recovered by the planner) is reported as rejection, any other panic escapes.
func vhFind(s Shard, key interface{}) (idx int, err error, rejected bool) {
	defer func() {
		if x := recover(); x != nil {
			if _, ok := x.(KeyError); ok {
				rejected = true
				return
			}
			panic(x)
		}
	}()
	idx, err = s.FindForKey(key)
	return
}

//verif:harness prop=C09 bounds="range rule with 1..6 tables, rows-per-table L symbolic in 1..2^40, key: every int64 (as int, int64 and uint64)"
func Harness_C09_RangeNumeric() {
	n := vs.IntRange("tables", 1, 6)
	L := vs.SymRange("L", 1, 1<<40)
	ranges, err := ParseNumSharding([]int{n}, L)
	vs.Assert(err == nil && len(ranges) == n, "C09/range/parse")
	s := &NumRangeShard{Shards: ranges}
	k := vs.Int64("key")
	vs.TagI("key", k)
	var key interface{} = k
	switch vs.Choice("keytype", 3) {
	case 1:
		key = int(k)
	case 2:
		key = uint64(k)
	}
	idx, ferr, rej := vhFind(s, key)
	vs.Assert(!rej, "C09/range/no-keyerror-for-integers")
	inRange := vs.And(k >= 0, k < int64(n)*int64(L))
	if ferr == nil {
		vs.Assert(inRange, "C09/range/accepted-key-is-inside-an-interval")
		vs.Assert(idx >= 0 && idx < n, "C09/range/index-in-range")
		lo := int64(idx) * int64(L)
		vs.Assert(vs.And(lo <= k, k < lo+int64(L)), "C09/range/key-in-its-interval")
		vs.Cover("C09/range/placed")
	} else {
		vs.Assert(ferr == errors.ErrKeyOutOfRange, "C09/range/error-kind")
		vs.Assert(!inRange, "C09/range/rejected-key-is-outside-every-interval")
		vs.Cover("C09/range/rejected")
	}
}

//verif:harness prop=C09 bounds="range rule with 3 tables of 100 rows; key: every string / []byte of 0..4 arbitrary bytes"
func Harness_C09_RangeStringKey() {
	ranges, _ := ParseNumSharding([]int{3}, 100)
	s := &NumRangeShard{Shards: ranges}
	n := vs.IntRange("len", 0, 4)
	b := vs.Bytes("key", n)
	var key interface{} = string(b)
	if vs.Choice("bytes", 2) == 1 {
		key = b
	}
	idx, ferr, rej := vhFind(s, key)
	// reference: optional sign, then digits only
	if rej {
		vs.Cover("C09/rangestr/keyerror")
		return
	}
	// accepted as a number: the text must be a decimal integer
	vs.Assert(n > 0, "C09/rangestr/empty-rejected")
	start := 0
	if b[0] == '+' || b[0] == '-' {
		start = 1
	}
	vs.Assert(n > start, "C09/rangestr/sign-only-rejected")
	var v int64
	for i := start; i < n; i++ {
		// '_' is accepted by ParseInt only with base 0, so plain digits are required
		vs.Assert(b[i] >= '0' && b[i] <= '9', "C09/rangestr/accepted-text-is-decimal")
		v = v*10 + int64(b[i]-'0')
	}
	if b[0] == '-' {
		v = -v
	}
	if ferr == nil {
		vs.Assert(v >= 0 && v < 300 && int64(idx) == v/100, "C09/rangestr/placed-in-its-interval")
		vs.Cover("C09/rangestr/placed")
	} else {
		vs.Assert(v < 0 || v >= 300, "C09/rangestr/rejected-is-outside")
	}
}

// Boundary-rich list of calendar dates (UTC): first and last day of every month
// of the listed years (leap and non-leap, epoch, 2038, century non-leap 2100).
func vhC09Dates() [][3]int {
	var out [][3]int
	years := []int{1970, 1972, 1999, 2000, 2017, 2024, 2038, 2100}
	if vs.Tier() >= 1 {
		years = append(years, 1971, 2001, 2016, 2019, 2023, 2037, 2039, 2099, 2101, 2105)
	}
	mdays := []int{31, 28, 31, 30, 31, 30, 31, 31, 30, 31, 30, 31}
	for _, y := range years {
		for m := 1; m <= 12; m++ {
			last := mdays[m-1]
			if m == 2 && (y%4 == 0 && (y%100 != 0 || y%400 == 0)) {
				last = 29
			}
			out = append(out, [3]int{y, m, 1}, [3]int{y, m, last})
			if vs.Tier() >= 1 {
				out = append(out, [3]int{y, m, 15})
			}
		}
	}
	return out
}

// days since 1970-01-01 (civil-from-days inverse, Howard Hinnant's algorithm)
func vhDaysFromCivil(y, m, d int) int64 {
	if m <= 2 {
		y--
	}
	era := y / 400
	yoe := y - era*400
	mp := (m + 9) % 12
	doy := (153*mp+2)/5 + d - 1
	doe := yoe*365 + yoe/4 - yoe/100 + doy
	return int64(era)*146097 + int64(doe) - 719468
}

//verif:harness prop=C09 bounds="date_year / date_month / date_day rules; calendar date from a boundary list (first and last day of every month of 8 years (quick) / 18 years plus mid-month (thorough), 1970..2105); time of day: every second (symbolic); key spellings: unix timestamp (int, int64, uint64), 'YYYY-MM-DD', 'YYYY-MM-DD hh:mm:ss'; proxy time zone UTC"
func Harness_C09_CalendarSpellings() {
	time.Local = time.UTC
	dates := vhC09Dates()
	dt := dates[vs.Choice("date", len(dates))]
	y, m, d := dt[0], dt[1], dt[2]
	tod := int64(vs.SymRange("secondOfDay", 0, 86399))
	sec := vhDaysFromCivil(y, m, d)*86400 + tod
	var shard Shard
	want := 0
	switch vs.Choice("rule", 3) {
	case 0:
		shard, want = &DateYearShard{}, y
	case 1:
		shard, want = &DateMonthShard{}, y*100+m
	case 2:
		shard, want = &DateDayShard{}, y*10000+m*100+d
	}
	var key interface{}
	switch vs.Choice("spelling", 5) {
	case 0:
		key = int(sec)
	case 1:
		key = sec
	case 2:
		key = uint64(sec)
	case 3:
		key = fmt.Sprintf("%04d-%02d-%02d", y, m, d)
	case 4:
		hh, mi, ss := vs.IntRange("hh", 0, 23), 59, 7
		key = fmt.Sprintf("%04d-%02d-%02d %02d:%02d:%02d", y, m, d, hh, mi, ss)
	}
	idx, err, rej := vhFind(shard, key)
	vs.Assert(!rej && err == nil, "C09/calendar/well-formed-key-accepted")
	vs.Assert(idx == want, "C09/calendar/placed-in-its-period")
	vs.Cover("C09/calendar/done")
}

//verif:harness prop=C09 bounds="date rules; key: every string of 0..11 arbitrary bytes (quick: 0..10)"
func Harness_C09_CalendarMalformed() {
	n := vs.IntRange("len", 0, vs.Pick(10, 11))
	b := vs.Bytes("key", n)
	rule := vs.Choice("rule", 3)
	vs.TagI("len", int64(n))
	vs.TagI("rule", int64(rule))
	var shard Shard
	switch rule {
	case 0:
		shard = &DateYearShard{}
	case 1:
		shard = &DateMonthShard{}
	case 2:
		shard = &DateDayShard{}
	}
	idx, err, rej := vhFind(shard, string(b))
	if rej || err != nil {
		vs.Cover("C09/malformed/rejected")
		return
	}
	// accepted: the key must be a well-formed date prefix
	if n > 0 {
		vs.TagU("b0", uint64(b[0]))
	}
	digit := func(i int) bool { return vs.And(b[i] >= '0', b[i] <= '9') }
	// (1) a key shorter than 'YYYY-MM-DD' is not an accepted spelling
	vs.Assert(n >= 10, "C09/malformed/short-key-rejected")
	if n < 10 {
		return
	}
	// (2) the positions the rule reads hold digits
	read := []int{0, 1, 2, 3}
	if rule >= 1 {
		read = append(read, 5, 6)
	}
	if rule >= 2 {
		read = append(read, 8, 9)
	}
	w := true
	for _, i := range read {
		w = vs.And(w, digit(i))
	}
	vs.Assert(w, "C09/malformed/read-positions-are-digits")
	// (3) the rest of the 'YYYY-MM-DD' shape
	rest := vs.And(b[4] == '-', b[7] == '-')
	for _, i := range []int{5, 6, 8, 9} {
		rest = vs.And(rest, digit(i))
	}
	vs.Assert(rest, "C09/malformed/separators-and-unread-fields")
	_ = idx
	vs.Cover("C09/malformed/accepted")
}

// vhC09NextDay is the proleptic Gregorian successor of the day y-m-d.
func vhC09NextDay(y, m, d int) (int, int, int) {
	dim := []int{31, 28, 31, 30, 31, 30, 31, 31, 30, 31, 30, 31}[m-1]
	if m == 2 && (y%4 == 0 && y%100 != 0 || y%400 == 0) {
		dim = 29
	}
	if d < dim {
		return y, m, d + 1
	}
	if m < 12 {
		return y, m + 1, 1
	}
	return y + 1, 1, 1
}

//verif:harness prop=C09 bounds="date_day rules: the sub tables ParseDayRange builds for a span A-B are exactly the days from A to B; A from 14 start days around month ends, leap days and year ends of 2015..2021 (leap and non-leap), span length 0..5 days (every combination), ascending or descending spelling"
func Harness_C09_DayRangeTables() {
	starts := [][3]int{{2015, 12, 29}, {2016, 2, 27}, {2016, 12, 28}, {2016, 12, 31}, {2017, 2, 26}, {2017, 12, 30}, {2019, 12, 31}, {2020, 2, 28}, {2020, 12, 27}, {2020, 12, 30}, {2021, 1, 1}, {2018, 6, 28}, {2019, 2, 28}, {2020, 2, 29}}
	st := starts[vs.Choice("start", len(starts))]
	n := vs.IntRange("days", 0, 5)
	y, m, d := st[0], st[1], st[2]
	var want []int
	for i := 0; i <= n; i++ {
		want = append(want, y*10000+m*100+d)
		y, m, d = vhC09NextDay(y, m, d)
	}
	a, b := fmt.Sprint(want[0]), fmt.Sprint(want[len(want)-1])
	text := a + "-" + b
	if vs.Choice("descending", 2) == 1 {
		text = b + "-" + a
	}
	if n == 0 && vs.Choice("single", 2) == 1 {
		text = a
	}
	got, err := ParseDayRange(text)
	vs.Assert(err == nil, "C09/day-range/parsed")
	if err != nil {
		return
	}
	vs.Assert(len(got) == len(want), "C09/day-range/one-sub-table-per-day-of-the-span")
	for i := 0; i < len(want) && i < len(got); i++ {
		vs.Assert(got[i] == want[i], "C09/day-range/one-sub-table-per-day-of-the-span")
	}
	// every day of the span is placed in a listed table
	s := &DateDayShard{}
	for _, day := range want {
		key := fmt.Sprintf("%04d-%02d-%02d", day/10000, day/100%100, day%100)
		idx, ferr := s.FindForKey(key)
		vs.Assert(ferr == nil && vhC09Has(got, idx), "C09/day-range/every-day-of-the-span-has-its-table")
	}
	vs.Cover("C09/day-range/done")
}

func vhC09Has(l []int, x int) bool {
	for _, v := range l {
		if v == x {
			return true
		}
	}
	return false
}
