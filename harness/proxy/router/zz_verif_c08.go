package router

// C08 — Mycat-compatible rules place keys exactly where Mycat does.
//
// The references below are transcriptions of Mycat 1.6's algorithms with Java's
// semantics: BigInteger abs/mod for PartitionByMod, String.length()/charAt over
// UTF-16 code units for PartitionByString and Guava's murmur3_32
// hashUnencodedChars for PartitionByMurmurHash.

import (
	"fmt"
	"unicode/utf16"

	"github.com/XiaoMi/Gaea/util"
	vs "github.com/XiaoMi/Gaea/zz_verifsym"
)

//verif:harness prop=C08 bounds="mycat_mod: every int64 key (as int64 and as int), partition count 1..16 enumerated"
func Harness_C08_Mod() {
	n := vs.IntRange("count", 1, 16)
	// every int64: non-negative, negative above MinInt64, and MinInt64 itself
	var k int64
	switch vs.Choice("sign", 3) {
	case 0:
		k = int64(vs.SymRange("key", 0, 1<<63-1))
	case 1:
		k = -int64(vs.SymRange("key", 1, 1<<63-1))
	case 2:
		k = -1 << 63
	}
	vs.TagI("key", k)
	s := NewMycatPartitionModShard(n)
	var key interface{} = k
	if vs.Choice("asInt", 2) == 1 {
		key = int(k)
	}
	idx, err, rej := vhFind(s, key)
	vs.Assert(err == nil && !rej, "C08/mod/accepted")
	// BigInteger(value).abs().mod(count)
	var mag uint64
	if k < 0 {
		mag = uint64(-k) // -MinInt64 wraps to MinInt64, whose uint64 value is 2^63 = |MinInt64|
	} else {
		mag = uint64(k)
	}
	want := int(mag % uint64(n))
	vs.Assert(idx == want, "C08/mod/same-partition-as-mycat")
	vs.Cover("C08/mod/done")
}

type vhLayout struct{ count, length string }

var vhLayouts = []vhLayout{{"4", "256"}, {"2,1", "256,512"}, {"1,2", "512,256"}, {"8", "128"}, {"1", "1024"}, {"2,2,1", "128,256,256"}}

func vhLayoutShards(l vhLayout) int {
	cs, _ := toIntArray(l.count)
	n := 0
	for _, c := range cs {
		n += c
	}
	return n
}

// reference partition of a hash value: PartitionUtil.partition(hash & 1023)
func vhRefPartition(l vhLayout, h int64) int {
	cs, _ := toIntArray(l.count)
	ls, _ := toIntArray(l.length)
	slot := int(h & 1023)
	part, edge, res := 0, 0, 0
	for i := range cs {
		for j := 0; j < cs[i]; j++ {
			lo := edge
			edge += ls[i]
			res = vs.IteInt(vs.And(slot >= lo, slot < edge), part, res)
			part++
		}
	}
	return res
}

//verif:harness prop=C08 bounds="mycat_long: every int64 key (q*1024+slot, q symbolic, slot enumerated), 6 partition layouts summing to 1024"
func Harness_C08_Long() {
	l := vhLayouts[vs.Choice("layout", len(vhLayouts))]
	s := NewMycatPartitionLongShard(vhLayoutShards(l), l.count, l.length)
	vs.Assert(s.Init() == nil, "C08/long/init")
	// every int64 written as q*1024 + slot (slot enumerated, q symbolic; two's complement)
	slot := vs.IntRange("slot", 0, 1023)
	k := vs.Int64("q")*1024 + int64(slot)
	idx, err, rej := vhFind(s, k)
	vs.Assert(err == nil && !rej, "C08/long/accepted")
	vs.Assert(idx == vhRefPartition(l, k), "C08/long/same-partition-as-mycat")
	vs.Cover("C08/long/done")
}

// vhKey returns a key of n symbolic code points (no surrogates) as the Go string the
// proxy receives (UTF-8) and as the UTF-16 code units Mycat's Java code sees.
func vhKey(n int) (string, []uint16) {
	var s string
	var units []uint16
	for i := 0; i < n; i++ {
		if vs.Bool("supplementary") {
			cp := vs.SymRange("cp", 0x10000, 0x10FFFF)
			s += string(rune(cp))
			// surrogate pair (the arithmetic is written as in java.lang.Character.toChars)
			v := rune(cp) - 0x10000
			units = append(units, uint16(0xd800+(v>>10)&0x3ff), uint16(0xdc00+v&0x3ff))
			vs.Cover("C08/key/supplementary")
		} else {
			cp := vs.SymRange("cp", 0, 0xFFFF)
			vs.Assume(cp < 0xD800 || cp > 0xDFFF)
			s += string(rune(cp))
			units = append(units, uint16(cp))
		}
	}
	return s, units
}

// StringUtil.hash(s, start, end) over UTF-16 units
func vhJavaStringHash(u []uint16, start, end int) int64 {
	if start < 0 {
		start = 0
	}
	if end > len(u) {
		end = len(u)
	}
	var h int64
	for i := start; i < end; i++ {
		h = (h << 5) - h + int64(u[i])
	}
	return h
}

//verif:harness prop=C08 bounds="mycat_string: keys of 0..2 (quick) / 0..3 (thorough) symbolic code points (any plane, no surrogates); hashSlice forms 'n', 'a:b', 'a:', ':b', ':' with a,b in -2..2 (quick) / -3..3 (thorough); 2 partition layouts"
func Harness_C08_String() {
	l := vhLayouts[vs.Choice("layout", 2)]
	R := vs.Pick(2, 3)
	var hs string
	var jStart, jEnd int // Mycat: hashSliceStart, hashSliceEnd
	switch vs.Choice("form", 5) {
	case 0:
		a := vs.IntRange("a", -R, R)
		hs = fmt.Sprintf("%d", a)
		if a >= 0 {
			jStart, jEnd = 0, a
		} else {
			jStart, jEnd = a, 0
		}
	case 1:
		a, b := vs.IntRange("a", -R, R), vs.IntRange("b", -R, R)
		hs, jStart, jEnd = fmt.Sprintf("%d:%d", a, b), a, b
	case 2:
		a := vs.IntRange("a", -R, R)
		hs, jStart, jEnd = fmt.Sprintf("%d:", a), a, 0
	case 3:
		b := vs.IntRange("b", -R, R)
		hs, jStart, jEnd = fmt.Sprintf(":%d", b), 0, b
	case 4:
		hs, jStart, jEnd = ":", 0, 0
	}
	s := NewMycatPartitionStringShard(vhLayoutShards(l), l.count, l.length, hs)
	vs.Assert(s.Init() == nil, "C08/string/init")
	n := vs.IntRange("chars", 0, vs.Pick(2, 3))
	key, units := vhKey(n)
	vs.TagI("units", int64(len(units)))
	vs.TagI("bytes", int64(len(key)))
	vs.TagI("chars", int64(n))
	idx, err, rej := vhFind(s, key)
	vs.Assert(err == nil && !rej, "C08/string/accepted")
	// PartitionByString.calculate
	start := jStart
	if jStart < 0 {
		start = len(units) + jStart
	}
	end := jEnd
	if jEnd <= 0 {
		end = len(units) + jEnd
	}
	want := vhRefPartition(l, vhJavaStringHash(units, start, end))
	vs.Assert(idx == want, "C08/string/same-partition-as-mycat")
	vs.Cover("C08/string/done")
}

// Guava Hashing.murmur3_32(seed).hashUnencodedChars over UTF-16 units
func vhGuavaMurmur(seed int32, u []uint16) int32 {
	const c1, c2 = 0xcc9e2d51, 0x1b873593
	rotl := func(x uint32, r uint) uint32 { return x<<r | x>>(32-r) }
	mixK := func(k uint32) uint32 { return rotl(k*c1, 15) * c2 }
	h := uint32(seed)
	for i := 1; i < len(u); i += 2 {
		k := uint32(u[i-1]) | uint32(u[i])<<16
		h ^= mixK(k)
		h = rotl(h, 13)
		h = h*5 + 0xe6546b64
	}
	if len(u)&1 == 1 {
		h ^= mixK(uint32(u[len(u)-1]))
	}
	h ^= uint32(2 * len(u))
	h ^= h >> 16
	h *= 0x85ebca6b
	h ^= h >> 13
	h *= 0xc2b2ae35
	h ^= h >> 16
	return int32(h)
}

//verif:harness prop=C08 bounds="mycat_murmur hash function: seed every int32 (symbolic), keys of 0..3 symbolic code points (any plane, no surrogates)"
func Harness_C08_MurmurHash() {
	seed := vs.Int32("seed")
	n := vs.IntRange("chars", 0, 3)
	key, units := vhKey(n)
	vs.TagI("units", int64(len(units)))
	vs.TagI("chars", int64(n))
	got := util.NewMurmurHash(int(seed)).HashUnencodedChars(key)
	vs.Assert(got == int(vhGuavaMurmur(seed, units)), "C08/murmur/same-hash-as-guava")
	vs.Cover("C08/murmur/done")
}

// ---- mycat_murmur: the consistent-hash ring ----

var vhRingSeed, vhRingKeyHash int32

const vhRingLookup = "\x00lookup"

// vhRingHash stands in for MurmurHash.HashUnencodedChars: node names are hashed with the Guava
// transcription above (Harness_C08_MurmurHash shows the real function equal to it), the looked-up
// key hashes to an arbitrary int32.
func vhRingHash(m *util.MurmurHash, s string) int {
	if s == vhRingLookup {
		vhRingKeyHash = vs.Int32("hash")
		return int(vhRingKeyHash)
	}
	return int(vhGuavaMurmur(vhRingSeed, utf16.Encode([]rune(s))))
}

//verif:harness prop=C08 bounds="mycat_murmur ring: 1..4 shards, 1..3 virtual nodes per shard, seed from {0, 1, -7}; the looked-up key's hash is any int32 (symbolic); reference: Mycat's TreeMap ring (tailMap(hash).firstKey, else firstKey)"
//verif:mock (*github.com/XiaoMi/Gaea/util.MurmurHash).HashUnencodedChars vhRingHash
func Harness_C08_MurmurRing() {
	count, vbt := vs.IntRange("shards", 1, 4), vs.IntRange("virtualNodes", 1, 3)
	vhRingSeed = []int32{0, 1, -7}[vs.Choice("seed", 3)]
	s, err := NewMycatPartitionMurmurHashShard(fmt.Sprint(vhRingSeed), fmt.Sprint(vbt), count)
	vs.Assert(err == nil, "C08/ring/constructed")
	if err != nil {
		return
	}
	vs.Assert(s.Init() == nil, "C08/ring/initialised")
	// Mycat: for each shard i, for n in 0..vbt-1: name = "SHARD-i" + "-NODE-0" + ... + "-NODE-n"; ring.put(hash(name), i)
	ring := map[int32]int{}
	var keys []int32
	for i := 0; i < count; i++ {
		name := "SHARD-" + fmt.Sprint(i)
		for n := 0; n < vbt; n++ {
			name += "-NODE-" + fmt.Sprint(n)
			h := vhGuavaMurmur(vhRingSeed, utf16.Encode([]rune(name)))
			if _, dup := ring[h]; !dup {
				keys = append(keys, h)
			}
			ring[h] = i
		}
	}
	for i := range keys { // ascending
		for j := i + 1; j < len(keys); j++ {
			if keys[j] < keys[i] {
				keys[i], keys[j] = keys[j], keys[i]
			}
		}
	}
	got, ferr := s.FindForKey(vhRingLookup)
	vs.Assert(ferr == nil, "C08/ring/lookup-succeeds")
	h := vhRingKeyHash // the value the lookup hashed to
	want := ring[keys[0]] // wrap around to the first node
	for i := len(keys) - 1; i >= 0; i-- {
		want = vs.IteInt(h <= keys[i], ring[keys[i]], want)
	}
	vs.Assert(got == want, "C08/ring/same-shard-as-mycat")
	vs.Cover("C08/ring/done")
}
