package backend

// C26 — a replica is fused exactly when recent connection errors reach the threshold.

import (
	vs "github.com/XiaoMi/Gaea/zz_verifsym"
)

const vhC26MaxQ = 1 << 36

// STEP: arbitrary window state satisfying the representation invariant, one real Trigger.
//
// Inv(sw, lastNow): startSec = max(0, lastNow-W+1); bucket i, when present, has
// StartTime ≡ i (mod W), startSec <= StartTime <= lastNow (so StartTime is determined by
// i and lastNow), ErrorCount >= 1 and stands for ErrorCount events at second StartTime;
// allErrorCount = Σ ErrorCount; the bucket of lastNow is present.
//
// Seconds are written base + offset with base = qB*W (qB symbolic, any magnitude up to
// 2^36*W, or 0 for the first W seconds after start) and small concrete offsets, so that
// every comparison between seconds is decided by the term layer and the solver is left
// with the arithmetic on counts and the threshold.
//
//verif:harness prop=C26 timeout=2400 bounds="W in 1..4 (quick) / 1..6 (thorough); base second qB*W with qB symbolic in 1..2^36 or 0; lastNow residue, presence of each bucket and now-lastNow in 0..2W+1 enumerated; threshold and per-bucket counts (1..2^20) symbolic; one Trigger from an arbitrary invariant state"
func Harness_C26_TriggerStep() {
	W := vs.IntRange("W", 1, vs.Pick(4, 6))
	W64 := int64(W)
	thr := int64(vs.SymRange("thr", 1, 1<<20))
	sw := NewSlidingWindow(W64, thr)

	var base int64
	late := vs.Bool("late")
	if late {
		base = int64(vs.SymRange("qB", 1, vhC26MaxQ)) * W64
	}
	hasEvents := vs.Bool("hasEvents")
	a := 0
	var lastNow int64 = -1
	if hasEvents {
		a = vs.IntRange("a", 0, W-1)
		lastNow = base + int64(a)
		if late {
			sw.startSec = lastNow - W64 + 1
		}
	} else {
		vs.Assume(!late) // no events yet: the window is in its initial state
	}
	type ev struct {
		present bool
		t, c    int64
	}
	evs := make([]ev, W)
	var total int64
	for i := 0; i < W && hasEvents; i++ {
		d := ((a-i)%W + W) % W // seconds before lastNow
		if !late && d > a {
			continue // would be before second 0
		}
		if i == a || vs.Bool("present") {
			t := lastNow - int64(d)
			c := int64(vs.SymRange("c", 1, 1<<20))
			sw.buckets[i] = &SlideBucket{StartTime: t, ErrorCount: c}
			evs[i] = ev{true, t, c}
			total += c
		}
	}
	sw.allErrorCount = total

	// the step
	delta := vs.IntRange("delta", 0, 2*W+1)
	now := base + int64(a+delta)
	if !hasEvents {
		now = int64(delta)
	}
	vs.TagI("delta", int64(delta))
	vs.TagI("W", W64)

	got := sw.Trigger(now)

	// reference: events in (now-W, now] plus the new one
	var inWin int64 = 1
	for i := 0; i < W; i++ {
		if evs[i].present && evs[i].t > now-W64 {
			inWin += evs[i].c
		}
	}
	vs.Assert(got == (inWin >= thr), "C26/step/fires-iff-threshold")

	// invariant after the step
	wantStart := now - W64 + 1
	if wantStart < 0 {
		wantStart = 0
	}
	vs.Assert(sw.startSec == wantStart, "C26/step/inv-startSec")
	var sum int64
	for i := 0; i < W; i++ {
		b := sw.buckets[i]
		if b == nil {
			continue
		}
		sum += b.ErrorCount
		vs.Assert(b.ErrorCount >= 1, "C26/step/inv-count-positive")
		vs.Assert(b.StartTime > now-W64 && b.StartTime <= now, "C26/step/inv-bucket-in-window")
		if evs[i].present && evs[i].t > now-W64 && evs[i].t != now {
			vs.Assert(b.ErrorCount == evs[i].c, "C26/step/inv-old-bucket-kept")
		}
	}
	vs.Assert(sw.buckets[int(now%W64)] != nil, "C26/step/inv-latest-bucket-present")
	vs.Assert(sum == sw.allErrorCount, "C26/step/inv-sum")
	vs.Assert(sw.allErrorCount == inWin, "C26/step/inv-total-is-window-count")
	if got {
		vs.Cover("C26/step/fired")
	} else {
		vs.Cover("C26/step/not-fired")
	}
}

// BMC twin: from NewSlidingWindow, k calls with symbolic non-decreasing times.
//
//verif:harness prop=C26 bounds="W in 1..3 (quick) / 1..4 (thorough), k=3 (quick) / 4 (thorough) calls, times symbolic non-decreasing in 0..63, threshold symbolic 1..8"
func Harness_C26_TriggerBMC() {
	W := vs.IntRange("W", 1, vs.Pick(3, 4))
	thr := int64(vs.SymRange("thr", 1, 8))
	k := vs.Pick(3, 4)
	sw := NewSlidingWindow(int64(W), thr)
	times := make([]int64, 0, k)
	var last int64
	for s := 0; s < k; s++ {
		now := int64(vs.SymRange("now", 0, 63))
		vs.Assume(now >= last)
		last = now
		got := sw.Trigger(now)
		times = append(times, now)
		var cnt int64
		for _, e := range times {
			if e > now-int64(W) && e <= now {
				cnt++
			}
		}
		vs.Assert(got == (cnt >= thr), "C26/bmc/fires-iff-threshold")
	}
	vs.Cover("C26/bmc/done")
}

// A disabled breaker never fires.
//
//verif:harness prop=C26 bounds="window and threshold arbitrary int64 with window<=0 or threshold<=0; 3 calls at arbitrary times"
func Harness_C26_Disabled() {
	w := vs.Int64("w")
	thr := vs.Int64("thr")
	vs.Assume(w <= 0 || thr <= 0)
	sw := NewSlidingWindow(w, thr)
	for s := 0; s < 3; s++ {
		vs.Assert(!sw.Trigger(vs.Int64("now")), "C26/disabled/never-fires")
	}
	vs.Cover("C26/disabled/done")
}
