package backend

// Shared fakes for harnesses: a scripted ConnectionPool / PooledConnect pair
// that records what happens to each connection.  Exported so that harnesses
// of other packages (proxy/server, proxy/sequence) can use them.

import (
	"context"
	"errors"
	"time"

	"github.com/XiaoMi/Gaea/mysql"
)

// VhLedger records the life cycle of fake connections across pools.
type VhLedger struct {
	NextID int
	Events []string
	Conns  []*VhConn
}

func (l *VhLedger) Log(ev string) { l.Events = append(l.Events, ev) }

type VhPool struct {
	Name        string
	DC          string
	Master      bool
	Ledger      *VhLedger
	GetFails    func() bool // nil = never fails
	GetErr      error
	Taken       int
	Returned    int
	LastChecked int64
	Script      func(c *VhConn, op string, arg string) error // per-operation fault script
	ExecResult  func(c *VhConn, sql string) (*mysql.Result, error)
}

type VhConn struct {
	ID         int
	Pool       *VhPool
	Closed     bool
	Recycled   int
	InTx       bool
	AutoCommit uint8
	DB         string
	Log        []string
	MoreRows   bool
}

var ErrVhGet = errors.New("vh: pool get failed")

func (p *VhPool) Open() error        { return nil }
func (p *VhPool) Addr() string       { return p.Name }
func (p *VhPool) Datacenter() string { return p.DC }
func (p *VhPool) Close()             {}
func (p *VhPool) Get(ctx context.Context) (PooledConnect, error) {
	if p.GetFails != nil && p.GetFails() {
		if p.GetErr != nil {
			return nil, p.GetErr
		}
		return nil, ErrVhGet
	}
	c := &VhConn{Pool: p, AutoCommit: 1}
	if p.Ledger != nil {
		c.ID = p.Ledger.NextID
		p.Ledger.NextID++
		p.Ledger.Conns = append(p.Ledger.Conns, c)
	}
	p.Taken++
	return c, nil
}
func (p *VhPool) GetCheck(ctx context.Context) (PooledConnect, error) { return p.Get(ctx) }
func (p *VhPool) Put(pc PooledConnect)                               { p.Returned++ }
func (p *VhPool) SetCapacity(capacity int) (err error)               { return nil }
func (p *VhPool) SetIdleTimeout(idleTimeout time.Duration)           {}
func (p *VhPool) StatsJSON() string                                  { return "{}" }
func (p *VhPool) Capacity() int64                                    { return 8 }
func (p *VhPool) Available() int64                                   { return 8 }
func (p *VhPool) Active() int64                                      { return 0 }
func (p *VhPool) InUse() int64                                       { return int64(p.Taken - p.Returned) }
func (p *VhPool) MaxCap() int64                                      { return 8 }
func (p *VhPool) WaitCount() int64                                   { return 0 }
func (p *VhPool) WaitTime() time.Duration                            { return 0 }
func (p *VhPool) IdleTimeout() time.Duration                         { return 0 }
func (p *VhPool) IdleClosed() int64                                  { return 0 }
func (p *VhPool) SetLastChecked()                                    { p.LastChecked = time.Now().Unix() }
func (p *VhPool) GetLastChecked() int64                              { return p.LastChecked }

func (c *VhConn) op(name, arg string) error {
	c.Log = append(c.Log, name)
	if c.Pool != nil && c.Pool.Script != nil {
		return c.Pool.Script(c, name, arg)
	}
	return nil
}

func (c *VhConn) Recycle() {
	c.Recycled++
	c.Log = append(c.Log, "recycle")
	if c.Pool != nil {
		c.Pool.Returned++
	}
}
func (c *VhConn) Reconnect() error { return c.op("reconnect", "") }
func (c *VhConn) Close()           { c.Closed = true; c.Log = append(c.Log, "close") }
func (c *VhConn) IsClosed() bool   { return c.Closed }
func (c *VhConn) UseDB(db string) error {
	if err := c.op("usedb", db); err != nil {
		return err
	}
	c.DB = db
	return nil
}
func (c *VhConn) Execute(sql string, maxRows int) (*mysql.Result, error) {
	if err := c.op("execute", sql); err != nil {
		return nil, err
	}
	if c.AutoCommit == 0 {
		c.InTx = true // with autocommit off every statement runs in a transaction
	}
	if c.Pool != nil && c.Pool.ExecResult != nil {
		return c.Pool.ExecResult(c, sql)
	}
	return &mysql.Result{}, nil
}
func (c *VhConn) ExecuteWithTimeout(sql string, maxRows int, timeout time.Duration) (*mysql.Result, error) {
	return c.Execute(sql, maxRows)
}
func (c *VhConn) SetAutoCommit(v uint8) error {
	if err := c.op("autocommit", ""); err != nil {
		return err
	}
	if v == 1 && c.AutoCommit == 0 {
		c.InTx = false // MySQL commits the open transaction when autocommit goes from 0 to 1 (and only then)
	}
	c.AutoCommit = v
	return nil
}
func (c *VhConn) Begin() error {
	if err := c.op("begin", ""); err != nil {
		return err
	}
	c.InTx = true
	return nil
}
func (c *VhConn) Commit() error {
	if err := c.op("commit", ""); err != nil {
		return err
	}
	c.InTx = false
	return nil
}
func (c *VhConn) Rollback() error {
	if err := c.op("rollback", ""); err != nil {
		return err
	}
	c.InTx = false
	return nil
}
func (c *VhConn) Ping() error                                 { return c.op("ping", "") }
func (c *VhConn) PingWithTimeout(timeout time.Duration) error { return c.op("ping", "") }
func (c *VhConn) SetCharset(charset string, collation mysql.CollationID) (bool, error) {
	return false, c.op("setcharset", charset)
}
func (c *VhConn) FieldList(table string, wildcard string) ([]*mysql.Field, error) {
	return nil, c.op("fieldlist", table)
}
func (c *VhConn) GetAddr() string {
	if c.Pool != nil {
		return c.Pool.Name
	}
	return ""
}
func (c *VhConn) SetSessionVariables(frontend *mysql.SessionVariables) (bool, error) {
	return false, c.op("setsessionvariables", "")
}
func (c *VhConn) SyncSessionVariables(frontend *mysql.SessionVariables) error {
	return c.op("syncsessionvariables", "")
}
func (c *VhConn) WriteSetStatement() error { return c.op("writeset", "") }
func (c *VhConn) GetConnectionID() int64   { return int64(c.ID) }
func (c *VhConn) GetReturnTime() time.Time { return time.Time{} }
func (c *VhConn) MoreRowsExist() bool      { return c.MoreRows }
func (c *VhConn) MoreResultsExist() bool   { return false }
func (c *VhConn) FetchMoreRows(result *mysql.Result, maxRows int) error {
	return c.op("fetchmorerows", "")
}
func (c *VhConn) ReadMoreResult(maxRows int) (*mysql.Result, error) {
	return nil, c.op("readmoreresult", "")
}
