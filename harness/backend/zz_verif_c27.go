package backend

// C27 — fused replicas are not restored before their cool-down.
// C28 — health checks mark nodes down and up according to the probe history.
//
// One probe round of a replica (checkWithNoRecovery / checkWithHardRecovery /
// checkWithGradualRecovery, reached through TryRecover) and one fuse event
// (TryFuse) from an arbitrary state, with the clock, the probe outcome, the
// master's status and the replication status row symbolic.

import (
	"errors"
	"time"

	"github.com/XiaoMi/Gaea/mysql"
	vs "github.com/XiaoMi/Gaea/zz_verifsym"
)

var vhClock int64

func vhNow() time.Time { return time.Unix(vhClock, 0) }

// vhLogTime replaces time.Time.Format under the engine in these harnesses: the probe code
// formats (symbolic) times only for log messages.
func vhLogTime(t time.Time, layout string) string { return "<time>" }

type vhProbe struct {
	slice     *Slice
	node      *NodeInfo
	pool      *VhPool
	now       int64
	probeOK   bool
	masterUp  bool
	wasUp     bool
	syncBad   bool // the replication row says: lagging or a thread stopped (only looked at when the probe gave a connection)
	downAfter int
	elapsedOK bool // now - lastChecked(after the probe) < downAfter
}

// vhProbeSetup builds a slice with one master and one replica in an arbitrary state.
func vhProbeSetup() *vhProbe {
	time.Local = time.UTC
	p := &vhProbe{}
	p.now = int64(vs.SymRange("now", 1<<20, 1<<40))
	vhClock = p.now
	age := int64(vs.SymRange("sinceLastOK", 0, 1<<20))
	p.downAfter = vs.SymRange("downAfterNoAlive", 1, 1<<20)
	probe := vs.Choice("probe", 4) // 0 ok, 1 no connection, 2 ping fails, 3 select 1 fails
	p.probeOK = probe == 0
	p.masterUp = vs.Choice("masterUp", 2) == 1
	p.wasUp = vs.Choice("replicaUp", 2) == 1
	limit := vs.SymRange("secondsBehindMasterLimit", 0, 1<<20)

	// replication status row
	lag := uint64(vs.SymRange("lag", 0, 1<<21))
	threads := []string{"Yes", "No", "Connecting"}
	io := threads[vs.Choice("io", 3)]
	sql := threads[vs.Choice("sql", 3)]
	row := vs.Choice("row", 3) // 0 row, 1 empty result, 2 no privilege
	p.syncBad = false
	if row == 0 {
		p.syncBad = vs.And(limit != 0, vs.Or(lag > uint64(limit), io != "Yes" || sql != "Yes"))
	}

	led := &VhLedger{}
	p.pool = &VhPool{Name: "replica", DC: "dc", Ledger: led, LastChecked: p.now - age}
	if probe == 1 {
		p.pool.GetFails = func() bool { return true }
	}
	p.pool.Script = func(c *VhConn, op string, arg string) error {
		if op == "ping" && probe == 2 {
			return errors.New("ping failed")
		}
		if op == "execute" && arg == "select 1" && probe == 3 {
			return errors.New("select 1 failed")
		}
		if op == "execute" && arg == "show slave status;" && row == 2 {
			return mysql.NewError(mysql.ErrSpecificAccessDenied, "no privilege")
		}
		return nil
	}
	p.pool.ExecResult = func(c *VhConn, q string) (*mysql.Result, error) {
		rs := &mysql.Resultset{}
		if q == "show slave status;" && row == 0 {
			names := []string{"Seconds_Behind_Master", "Slave_IO_Running", "Slave_SQL_Running"}
			rs.FieldNames = map[string]int{}
			for i, n := range names {
				rs.Fields = append(rs.Fields, &mysql.Field{Name: []byte(n)})
				rs.FieldNames[n] = i
			}
			rs.Values = [][]interface{}{{lag, io, sql}}
		}
		return &mysql.Result{Resultset: rs}, nil
	}
	st := StatusDown
	if p.wasUp {
		st = StatusUp
	}
	p.node = &NodeInfo{Address: "replica", Datacenter: "dc", Weight: 1, ConnPool: p.pool, Status: st}
	mst := StatusDown
	if p.masterUp {
		mst = StatusUp
	}
	master := &NodeInfo{Address: "master", ConnPool: &VhPool{Name: "master", Ledger: led}, Status: mst}
	p.slice = &Slice{Namespace: "ns", Master: &DBInfo{Nodes: []*NodeInfo{master}}, Slave: &DBInfo{Nodes: []*NodeInfo{p.node}}}
	p.limitSet(limit)
	lastAfter := p.now - age
	if p.probeOK {
		lastAfter = p.now
	}
	p.elapsedOK = p.now-lastAfter < int64(p.downAfter)
	return p
}

var vhLimit int

func (p *vhProbe) limitSet(l int) { vhLimit = l }

// reference of one probe round, per the property text; allowed = the recovery
// condition of the strategy in force (C27), true without a strategy.
func (p *vhProbe) wantUp(allowed bool) bool {
	if !p.elapsedOK {
		return false // not seen alive for the down-after period
	}
	if vs.And(p.masterUp, vs.And(p.probeOK, p.syncBad)) {
		return false // lagging or a replication thread stopped
	}
	if p.probeOK {
		if p.wasUp {
			return true
		}
		return allowed // a successful probe brings the node up, subject to C27
	}
	return p.wasUp // no other event changes the status
}

//verif:harness prop=C28 bounds="one probe round of a replica without fuse strategy: clock, time since last successful probe, down-after period, lag and lag limit symbolic; probe outcome (ok / no connection / ping fails / select 1 fails), master up/down, replica up/down, IO/SQL thread states, row present/empty/no privilege enumerated"
//verif:mock time.Now vhNow
//verif:stub (time.Time).Format vhLogTime
func Harness_C28_ReplicaNoStrategy() {
	p := vhProbeSetup()
	vs.TagB("masterUp", p.masterUp)
	vs.TagB("probeOK", p.probeOK)
	vs.TagB("wasUp", p.wasUp)
	err := p.slice.TryRecover(p.node, p.downAfter, vhLimit)
	vs.Assert(err == nil, "C28/replica/round-ok")
	vs.Assert(p.node.IsStatusUp() == p.wantUp(true), "C28/replica/status-follows-probe-history")
	vs.Cover("C28/replica/done")
}

//verif:harness prop=C28 bounds="one probe round of the master (body of checkBackendMasterStatus's tick, transcribed call by call is not possible: the loop owns a ticker) -- covered through the replica rounds' shared steps 1-2; see DESIGN"
//verif:mock time.Now vhNow
//verif:stub (time.Time).Format vhLogTime
func Harness_C28_DownAfterNoAlive() {
	// step 1+2 shared by master and replica rounds: the health probe and ShouldDownAfterNoAlive
	p := vhProbeSetup()
	conn, err := p.node.GetPooledConnectWithHealthCheck("ns", "")
	vs.Assert((conn != nil) == p.probeOK && (err == nil) == p.probeOK, "C28/probe/connection-iff-probe-ok")
	down, _ := p.node.ShouldDownAfterNoAlive(p.downAfter)
	vs.Assert(down == !p.elapsedOK, "C28/probe/down-after-no-alive")
	vs.Cover("C28/probe/done")
}

//verif:harness prop=C27 bounds="one probe round of a fused replica under the hard policy: cool-down 1..2^20 s and time since the latest fuse 0..2^20 s symbolic, plus everything of the C28 round"
//verif:mock time.Now vhNow
//verif:stub (time.Time).Format vhLogTime
func Harness_C27_HardProbeRound() {
	p := vhProbeSetup()
	cool := int64(vs.SymRange("coolDown", 1, 1<<20))
	sinceFuse := int64(vs.SymRange("sinceFuse", 0, 1<<20))
	st := NewHardCoolDown(cool)
	st.UpdateFuseTime(p.now - sinceFuse)
	p.node.FuseStrategy = NewSlidingWindow(1, 1)
	p.node.RecoveryStrategy = st
	vs.TagB("masterUp", p.masterUp)
	vs.TagB("probeOK", p.probeOK)
	vs.TagB("wasUp", p.wasUp)
	err := p.slice.TryRecover(p.node, p.downAfter, vhLimit)
	vs.Assert(err == nil, "C27/hard/round-ok")
	cooled := sinceFuse >= cool
	if !p.wasUp && p.node.IsStatusUp() {
		vs.Assert(cooled, "C27/hard/not-restored-before-cool-down")
		vs.Assert(p.probeOK, "C27/hard/restored-only-by-a-successful-probe")
		vs.Cover("C27/hard/restored")
	}
	vs.Assert(p.node.IsStatusUp() == p.wantUp(cooled), "C27/hard/status-follows-probe-history-and-cool-down")
}

//verif:harness prop=C27 bounds="one probe round of a fused replica under the gradual policy: remaining consecutive-success penalty 0..120 and failed-recovery count 3..16 enumerated, plus everything of the C28 round"
//verif:mock time.Now vhNow
//verif:stub (time.Time).Format vhLogTime
func Harness_C27_GradualProbeRound() {
	p := vhProbeSetup()
	g := NewGradualRecovery()
	n := int64(vs.IntRange("errorRecoveryCount", 3, 16))
	c := int64(vs.SymRange("remainingPenalty", 0, 120))
	g.errorRecoveryCount.Set(n)
	g.consecutiveSuccessCheckCount.Set(c)
	g.lastRecoveryTime.Set(p.now - 1000)
	p.node.FuseStrategy = NewSlidingWindow(1, 1)
	p.node.RecoveryStrategy = g
	vs.TagB("masterUp", p.masterUp)
	vs.TagB("probeOK", p.probeOK)
	vs.TagB("wasUp", p.wasUp)
	err := p.slice.TryRecover(p.node, p.downAfter, vhLimit)
	vs.Assert(err == nil, "C27/gradual/round-ok")
	if !p.wasUp && p.node.IsStatusUp() {
		vs.Assert(c == 0, "C27/gradual/not-restored-while-penalty-remains")
		vs.Assert(p.probeOK, "C27/gradual/restored-only-by-a-successful-probe")
		vs.Assert(g.lastRecoveryTime.Get() == p.now, "C27/gradual/recovery-time-recorded")
		vs.Cover("C27/gradual/restored")
	}
	// penalty bookkeeping while down
	if !p.wasUp && !p.node.IsStatusUp() {
		full := (1 + n) * n / 2
		if full > 120 {
			full = 120
		}
		after := g.consecutiveSuccessCheckCount.Get()
		if !p.probeOK {
			vs.Assert(after == full, "C27/gradual/failed-probe-restarts-the-penalty")
		} else if vs.Fork(vs.And(p.elapsedOK, vs.And(p.masterUp, !p.syncBad))) {
			// a successful, fully healthy round consumes one unit of penalty
			want := c - 1
			if c == 0 {
				want = 0
			}
			vs.Assert(after == want, "C27/gradual/successful-probe-consumes-one-penalty-unit")
		}
	}
	// with the master down the gradual policy leaves the status alone
	wantUp := p.wantUp(c == 0)
	if !p.masterUp && p.elapsedOK {
		wantUp = p.wasUp
	}
	vs.Assert(p.node.IsStatusUp() == wantUp, "C27/gradual/status-follows-probe-history-and-penalty")
}

//verif:harness prop=C27 bounds="one TryFuse on a replica in any state (up/down) under the hard or gradual policy with window 1 / threshold 1: error kind (connection error, other error, nil), clock, previous fuse/recovery times symbolic, failed-recovery count 3..16 enumerated"
//verif:mock time.Now vhNow
//verif:stub (time.Time).Format vhLogTime
func Harness_C27_TryFuse() {
	time.Local = time.UTC
	now := int64(vs.SymRange("now", 1<<20, 1<<40))
	vhClock = now
	wasUp := vs.Choice("replicaUp", 2) == 1
	st := StatusDown
	if wasUp {
		st = StatusUp
	}
	node := &NodeInfo{Address: "replica", ConnPool: &VhPool{Name: "replica"}, Status: st, FuseStrategy: NewSlidingWindow(1, 1)}
	var errv error
	kind := vs.Choice("error", 3)
	switch kind {
	case 0:
		errv = mysql.NewConnTypeError("replica", "dial failed")
	case 1:
		errv = errors.New("some other error")
	}
	s := &Slice{Namespace: "ns"}
	if vs.Choice("policy", 2) == 0 {
		h := NewHardCoolDown(int64(vs.SymRange("coolDown", 1, 1<<20)))
		prev := now - int64(vs.SymRange("sinceFuse", 0, 1<<20))
		h.UpdateFuseTime(prev)
		node.RecoveryStrategy = h
		s.TryFuse(node, errv)
		if kind == 0 {
			vs.Assert(node.IsStatusDown(), "C27/fuse/connection-error-at-threshold-fuses")
			vs.Assert(h.lastFuseTime.Get() == now, "C27/fuse/hard-cool-down-counts-from-the-latest-fuse")
			vs.Assert(!h.AllowRecovery(), "C27/fuse/hard-no-recovery-right-after-fuse")
		} else {
			vs.Assert(node.IsStatusUp() == wasUp && h.lastFuseTime.Get() == prev, "C27/fuse/other-errors-never-count")
		}
		vs.Cover("C27/fuse/hard")
		return
	}
	g := NewGradualRecovery()
	n := int64(vs.IntRange("errorRecoveryCount", 3, 16))
	g.errorRecoveryCount.Set(n)
	g.consecutiveSuccessCheckCount.Set(0)
	sinceRec := int64(vs.SymRange("sinceRecovery", 0, 1<<20))
	g.lastRecoveryTime.Set(now - sinceRec)
	node.RecoveryStrategy = g
	s.TryFuse(node, errv)
	if kind == 0 {
		vs.Assert(node.IsStatusDown(), "C27/fuse/connection-error-at-threshold-fuses")
		if wasUp {
			soon := sinceRec <= 2*PingPeriod
			wantN := int64(initErrorRecoveryCount)
			if soon {
				wantN = n + 1
			}
			vs.Assert(g.errorRecoveryCount.Get() == wantN, "C27/fuse/penalty-grows-iff-failed-soon-after-recovery")
			if soon {
				full := (1 + wantN) * wantN / 2
				if full > 120 {
					full = 120
				}
				vs.Assert(g.consecutiveSuccessCheckCount.Get() == full, "C27/fuse/penalty-in-force-after-bad-recovery")
			}
		}
	} else {
		vs.Assert(node.IsStatusUp() == wasUp && g.errorRecoveryCount.Get() == n, "C27/fuse/other-errors-never-count")
	}
	vs.Cover("C27/fuse/gradual")
}

// ---- C28 under a fuse strategy: an up replica's status still only follows the probe history ----

//verif:harness prop=C28 bounds="one probe round of an up or down replica under the hard cool-down policy (cool-down and time since fuse symbolic) and the C28 round inputs; the C28 oracle: an up replica goes down only after the down-after period without a successful probe or on bad replication state, a down replica comes up only by a successful probe"
//verif:mock time.Now vhNow
//verif:stub (time.Time).Format vhLogTime
func Harness_C28_ReplicaHardPolicy() {
	p := vhProbeSetup()
	cool := int64(vs.SymRange("coolDown", 1, 1<<20))
	sinceFuse := int64(vs.SymRange("sinceFuse", 0, 1<<20))
	st := NewHardCoolDown(cool)
	st.UpdateFuseTime(p.now - sinceFuse)
	p.node.FuseStrategy = NewSlidingWindow(1, 1)
	p.node.RecoveryStrategy = st
	vs.TagB("masterUp", p.masterUp)
	vs.TagB("probeOK", p.probeOK)
	vs.TagB("wasUp", p.wasUp)
	err := p.slice.TryRecover(p.node, p.downAfter, vhLimit)
	vs.Assert(err == nil, "C28/replica-hard/round-ok")
	if p.wasUp {
		vs.Assert(p.node.IsStatusUp() == p.wantUp(true), "C28/replica-hard/up-replica-follows-probe-history")
	} else if p.node.IsStatusUp() {
		vs.Assert(p.probeOK && p.elapsedOK, "C28/replica-hard/down-replica-comes-up-only-by-a-successful-probe")
	}
	vs.Cover("C28/replica-hard/done")
}

//verif:harness prop=C28 bounds="one probe round of an up or down replica under the gradual policy (penalty 0..120 symbolic, failed-recovery count 3..16) and the C28 round inputs; same oracle; with the master down the gradual policy leaves the status alone (recorded C28 finding covers the no-strategy and hard paths)"
//verif:mock time.Now vhNow
//verif:stub (time.Time).Format vhLogTime
func Harness_C28_ReplicaGradualPolicy() {
	p := vhProbeSetup()
	g := NewGradualRecovery()
	g.errorRecoveryCount.Set(int64(vs.IntRange("errorRecoveryCount", 3, 16)))
	g.consecutiveSuccessCheckCount.Set(int64(vs.SymRange("remainingPenalty", 0, 120)))
	g.lastRecoveryTime.Set(p.now - 1000)
	p.node.FuseStrategy = NewSlidingWindow(1, 1)
	p.node.RecoveryStrategy = g
	vs.TagB("masterUp", p.masterUp)
	vs.TagB("probeOK", p.probeOK)
	vs.TagB("wasUp", p.wasUp)
	err := p.slice.TryRecover(p.node, p.downAfter, vhLimit)
	vs.Assert(err == nil, "C28/replica-gradual/round-ok")
	if p.wasUp {
		want := p.wantUp(true)
		if !p.masterUp && p.elapsedOK {
			want = true
		}
		vs.Assert(p.node.IsStatusUp() == want, "C28/replica-gradual/up-replica-follows-probe-history")
	} else if p.node.IsStatusUp() {
		vs.Assert(p.probeOK && p.elapsedOK, "C28/replica-gradual/down-replica-comes-up-only-by-a-successful-probe")
	}
	vs.Cover("C28/replica-gradual/done")
}
