package backend

// C39 — results are complete or an error, never silently truncated (row-limit part).

import (
	"io"
	"net"
	"time"

	"github.com/XiaoMi/Gaea/mysql"
	vs "github.com/XiaoMi/Gaea/zz_verifsym"
)

type vhC39Addr struct{}

func (vhC39Addr) Network() string { return "tcp" }
func (vhC39Addr) String() string  { return "10.0.0.2:3306" }

// vhC39Conn is the backend's side of the socket: it delivers the scripted packets, then EOF.
type vhC39Conn struct {
	in  []byte
	pos int
}

func (c *vhC39Conn) Read(b []byte) (int, error) {
	if c.pos >= len(c.in) {
		return 0, io.EOF
	}
	n := copy(b, c.in[c.pos:])
	c.pos += n
	return n, nil
}
func (c *vhC39Conn) Write(b []byte) (int, error)    { return len(b), nil }
func (c *vhC39Conn) Close() error                   { return nil }
func (*vhC39Conn) LocalAddr() net.Addr              { return vhC39Addr{} }
func (*vhC39Conn) RemoteAddr() net.Addr             { return vhC39Addr{} }
func (*vhC39Conn) SetDeadline(time.Time) error      { return nil }
func (*vhC39Conn) SetReadDeadline(time.Time) error  { return nil }
func (*vhC39Conn) SetWriteDeadline(time.Time) error { return nil }

//verif:harness prop=C39 bounds="one text-protocol result set with one BIGINT column and n = 0..4 rows (each a symbolic digit or NULL) read by the real DirectConnection.readResult with row limit 0 (unlimited) or 1..3; the 16 MiB streaming threshold is outside the bound (see not-covered note)"
func Harness_C39_RowLimit() {
	limit := vs.IntRange("rowLimit", 0, 3)
	n := vs.IntRange("rows", 0, 4)
	seq := byte(0)
	var in []byte
	packet := func(p []byte) {
		in = append(in, byte(len(p)), 0, 0, seq)
		in = append(in, p...)
		seq++
	}
	packet([]byte{1})
	packet((&mysql.Field{Name: []byte("a"), Type: mysql.TypeLonglong}).Dump())
	packet([]byte{mysql.EOFHeader, 0, 0, 2, 0})
	digits := make([]byte, n)
	nulls := make([]bool, n)
	for i := 0; i < n; i++ {
		if vs.Choice("null", 2) == 1 {
			nulls[i] = true
			packet([]byte{0xfb})
			continue
		}
		d := vs.Byte("digit")
		vs.Assume(d >= '0' && d <= '9')
		digits[i] = d
		packet([]byte{1, d})
	}
	packet([]byte{mysql.EOFHeader, 0, 0, 2, 0})
	conn := &vhC39Conn{in: in}
	dc := &DirectConnection{conn: mysql.NewConn(conn), capability: mysql.ClientProtocol41}
	vs.TagB("exactlyTheLimit", limit > 0 && n == limit)
	res, err := dc.readResult(false, limit)
	if limit > 0 && n > limit {
		vs.Assert(err != nil, "C39/result-larger-than-the-row-limit-is-an-error")
		// the connection is either drained to the end of the result or marked broken, never left mid-result
		vs.Assert(conn.pos == len(in) || dc.pkgErr != nil, "C39/connection-not-left-inside-the-result")
		return
	}
	vs.Assert(err == nil, "C39/result-within-the-row-limit-is-delivered")
	if err != nil {
		return
	}
	vs.Assert(len(res.Values) == n && len(res.RowDatas) == n, "C39/all-rows-delivered")
	for i := 0; i < n && i < len(res.Values); i++ {
		if nulls[i] {
			vs.Assert(res.Values[i][0] == nil, "C39/row-values-unchanged")
		} else {
			v, ok := res.Values[i][0].(int64)
			vs.Assert(ok && v == int64(digits[i]-'0'), "C39/row-values-unchanged")
		}
	}
	vs.Cover("C39/done")
}

//verif:harness prop=C39 scaleconst=16777215:40 bounds="(engine-only: the 16 MiB - 1 streaming threshold is scaled down to 40 bytes inside the proxy's code, which no native run can reproduce) one text-protocol result of 0..6 rows of 15 bytes each (crossing the scaled threshold after the third row), read by readResult and continued the way pooledConnectImpl.FetchMoreRows does until the end; every row must be delivered exactly once, in RowDatas and in Values"
func Harness_C39_StreamingThreshold() {
	n := vs.IntRange("rows", 0, 6)
	seq := byte(0)
	var in []byte
	packet := func(p []byte) {
		in = append(in, byte(len(p)), 0, 0, seq)
		in = append(in, p...)
		seq++
	}
	packet([]byte{1})
	packet((&mysql.Field{Name: []byte("a"), Type: mysql.TypeVarString}).Dump())
	packet([]byte{mysql.EOFHeader, 0, 0, 2, 0})
	for i := 0; i < n; i++ {
		row := []byte{}
		row = append(row, 12)
		for k := 0; k < 12; k++ {
			row = append(row, byte('a'+i))
		}
		packet(row)
	}
	packet([]byte{mysql.EOFHeader, 0, 0, 2, 0})
	conn := &vhC39Conn{in: in}
	dc := &DirectConnection{conn: mysql.NewConn(conn), capability: mysql.ClientProtocol41}
	res, err := dc.readResult(false, -1)
	vs.Assert(err == nil, "C39/streamed-result-is-read")
	if err != nil {
		return
	}
	seen := 0
	check := func(r *mysql.Result) {
		vs.Assert(len(r.Values) == len(r.RowDatas), "C39/every-row-of-a-chunk-is-parsed")
		for j := range r.Values {
			if j < len(r.Values) && len(r.Values[j]) == 1 {
				var s string
				switch v := r.Values[j][0].(type) {
				case string:
					s = v
				case []byte:
					s = string(v)
				}
				vs.Assert(len(s) == 12 && s[0] == byte('a'+seen), "C39/rows-delivered-in-order-without-loss")
			} else {
				vs.Fail("C39/rows-delivered-in-order-without-loss")
			}
			seen++
		}
	}
	check(res)
	for guard := 0; dc.moreRowExists && guard < 8; guard++ {
		more := &mysql.Result{Resultset: &mysql.Resultset{Fields: res.Fields}}
		if ferr := dc.readResultRows(more, false, -1); ferr != nil {
			vs.Fail("C39/streamed-result-is-read")
			return
		}
		check(more)
	}
	vs.Assert(seen == n, "C39/all-rows-delivered")
	vs.Cover("C39/streaming-done")
}
