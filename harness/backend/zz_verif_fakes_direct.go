package backend

// A real DirectConnection / pooledConnectImpl over a caller-supplied net.Conn, for harnesses of
// other packages (the fields are unexported).

import (
	"net"

	"github.com/XiaoMi/Gaea/mysql"
)

// VhNewPooledDirect wraps conn (the backend's side is played by the caller) in a real DirectConnection
// that has completed its handshake with utf8mb4 / default collation and no session variables.
func VhNewPooledDirect(conn net.Conn) PooledConnect {
	dc := &DirectConnection{
		conn:             mysql.NewConn(conn),
		capability:       mysql.ClientProtocol41,
		sessionVariables: mysql.NewSessionVariables(),
		charset:          "utf8mb4",
		collation:        mysql.CollationNames["utf8mb4_general_ci"],
		status:           mysql.ServerStatusAutocommit,
	}
	return &pooledConnectImpl{directConnection: dc}
}
