package backend

// C25 — replica selection follows weights, health and locality.

import (
	"sort"

	vs "github.com/XiaoMi/Gaea/zz_verifsym"
)

func vhGcd(a, b int) int {
	for b != 0 {
		a, b = b, a%b
	}
	return a
}

// Window lemma: with all replicas up, any len(queue) consecutive selections pick
// each replica exactly weight/gcd times — from ANY value of the shared counter,
// including a window that spans the counter's wrap-around.
//
//verif:harness prop=C25 bounds="1..4 replicas, weights 1..4 enumerated (normalised queue length up to 16); queue order: sorted then rotated by an enumerated offset; counter start: every uint32 (far from the wrap: qS*L+r with qS symbolic; within 2L+2 of 2^32: enumerated)"
func Harness_C25_WindowExactWeights() {
	n := vs.IntRange("n", 1, vs.Pick(3, 4))
	indices := make([]int, n)
	weights := make([]int, n)
	g := 0
	for i := 0; i < n; i++ {
		indices[i] = i
		weights[i] = vs.IntRange("w", 1, 4)
		g = vhGcd(g, weights[i])
	}
	b, err := newBalancer(indices, weights)
	vs.Assert(err == nil && b != nil, "C25/window/balancer-built")
	L := len(b.roundRobinQ)
	want := 0
	for i := 0; i < n; i++ {
		want += weights[i] / g
	}
	vs.Assert(L == want, "C25/window/queue-length-is-normalised-total")
	// the real constructor shuffles randomly; make the order canonical, then pick a rotation
	sort.Ints(b.roundRobinQ)
	rot := vs.IntRange("rot", 0, L-1)
	q := make([]int, L)
	for i := range q {
		q[i] = b.roundRobinQ[(i+rot)%L]
	}
	copy(b.roundRobinQ, q)

	// Every uint32 start value, in two families whose union is the whole range:
	//  far:  start = qS*L + r, qS symbolic, r enumerated, the window stays below 2^32;
	//  near: start = 2^32 - d for d in 1..2L+2 (the window may span the wrap-around).
	var start uint32
	if vs.Bool("nearWrap") {
		start = uint32(1<<32 - vs.IntRange("d", 1, 2*L+2))
	} else {
		Q := (1<<32 - 1 - 2*L) / L
		start = uint32(vs.SymRange("qS", 0, Q))*uint32(L) + uint32(vs.IntRange("r", 0, L-1))
	}
	b.nextIndex = start
	vs.TagU("start", uint64(start))
	vs.TagU("L", uint64(L))

	counts := make([]int, n)
	for k := 0; k < L; k++ {
		idx, e := b.next()
		vs.Assert(e == nil, "C25/window/next-ok")
		for i := 0; i < n; i++ {
			counts[i] += vs.IteInt(idx == i, 1, 0)
		}
	}
	for i := 0; i < n; i++ {
		vs.Assert(counts[i] == weights[i]/g, "C25/window/each-replica-exactly-its-normalised-weight")
	}
	vs.Cover("C25/window/done")
}

// Selection: health, zero weights and locality under the three local-read policies.
//
//verif:harness prop=C25 maxpaths=3000000 timeout=2400 bounds="1..2 replicas with weights from {0,1,2,5} (quick) / 1..3 replicas with weights 0..6 (thorough); datacenter local/remote enumerated; up/down and pool failure symbolic per replica; counter of each balancer used: every residue modulo its queue length (wrap-around is the window harness's subject); policy closed/prefer/force"
func Harness_C25_Selection() {
	n := vs.IntRange("n", 1, vs.Pick(2, 3))
	wset := []int{0, 1, 2, 5}
	if vs.Tier() >= 1 {
		wset = []int{0, 1, 2, 3, 4, 5, 6}
	}
	led := &VhLedger{}
	nodes := make([]*NodeInfo, n)
	pools := make([]*VhPool, n)
	local := make([]bool, n)
	up := make([]bool, n)
	fails := make([]bool, n)
	for i := 0; i < n; i++ {
		w := wset[vs.Choice("w", len(wset))]
		local[i] = vs.Choice("local", 2) == 1
		up[i] = vs.Bool("up")
		fails[i] = vs.Bool("poolFails")
		dc := "dcR"
		if local[i] {
			dc = "dcL"
		}
		f := fails[i]
		pools[i] = &VhPool{Name: "n", DC: dc, Ledger: led, GetFails: func() bool { return f }}
		st := StatusCode(vs.IteInt(up[i], int(StatusUp), int(StatusDown)))
		nodes[i] = &NodeInfo{Address: "n", Datacenter: dc, Weight: w, ConnPool: pools[i], Status: st}
	}
	db := &DBInfo{Nodes: nodes}
	vs.Assert(db.InitBalancers("dcL") == nil, "C25/select/balancers-built")
	policy := vs.Choice("policy", 3) // 0 closed, 1 prefer, 2 force
	used := []*balancer{db.GlobalBalancer}
	switch policy {
	case 1:
		used = []*balancer{db.LocalBalancer, db.RemoteBalancer}
	case 2:
		used = []*balancer{db.LocalBalancer}
	}
	for _, bal := range used {
		if bal != nil && len(bal.roundRobinQ) > 1 {
			sort.Ints(bal.roundRobinQ) // canonical order (the constructor shuffles randomly)
			bal.nextIndex = uint32(vs.IntRange("start", 0, len(bal.roundRobinQ)-1))
		}
	}
	s := &Slice{Namespace: "ns", ProxyDatacenter: "dcL"}

	pc, err := s.GetSlaveConn(db, policy)

	// reference sets
	eligibleAny, eligibleLocal := false, false     // up and weight > 0
	canServeAny, canServeLocal := false, false     // ... and its pool hands out a connection
	anyPoolFails := false
	for i := 0; i < n; i++ {
		e := vs.And(up[i], nodes[i].Weight > 0)
		eligibleAny = vs.Or(eligibleAny, e)
		canServeAny = vs.Or(canServeAny, vs.And(e, !fails[i]))
		if local[i] {
			eligibleLocal = vs.Or(eligibleLocal, e)
			canServeLocal = vs.Or(canServeLocal, vs.And(e, !fails[i]))
		}
		anyPoolFails = vs.Or(anyPoolFails, fails[i])
	}
	if err == nil {
		vs.Assert(pc != nil, "C25/select/conn-non-nil")
		c := pc.(*VhConn)
		k := -1
		for i := 0; i < n; i++ {
			if pools[i] == c.Pool {
				k = i
			}
		}
		vs.Assert(k >= 0, "C25/select/known-pool")
		vs.Assert(up[k], "C25/select/never-a-down-replica")
		vs.Assert(nodes[k].Weight > 0, "C25/select/never-a-zero-weight-replica")
		if policy == 2 {
			vs.Assert(local[k], "C25/select/force-local-stays-local")
		}
		if policy == 1 && !local[k] {
			vs.Assert(!canServeLocal || anyPoolFails, "C25/select/prefer-local-falls-back-only-when-no-local-can-serve")
			vs.Assert(!vs.And(eligibleLocal, !anyPoolFails), "C25/select/prefer-local-falls-back-only-when-no-local-eligible")
		}
		vs.Cover("C25/select/picked")
	} else {
		// with every pool healthy, a selection fails only if nobody is eligible
		if vs.Fork(!anyPoolFails) {
			switch policy {
			case 0:
				vs.Assert(!eligibleAny, "C25/select/closed-fails-only-without-eligible-replica")
			case 1:
				vs.Assert(!eligibleAny, "C25/select/prefer-fails-only-without-eligible-replica")
			case 2:
				vs.Assert(!eligibleLocal, "C25/select/force-fails-only-without-eligible-local-replica")
			}
		}
		vs.Cover("C25/select/failed")
	}
}
