package util

// C24 — the connection pool never over-allocates, double-issues or fails a return.

import (
	"context"
	"runtime"
	"sync"
	"time"

	"github.com/XiaoMi/Gaea/util/sync2"
	"github.com/google/uuid"
	vs "github.com/XiaoMi/Gaea/zz_verifsym"
)

type vhC24Res struct {
	id     int
	closed bool
}

func (r *vhC24Res) Close() { r.closed = true }

func vhC24UUID() (uuid.UUID, error) { return uuid.UUID{}, nil }

// vhC24Pool is NewResourcePool without the two background timers (their ticks are explicit actors of the harness).
func vhC24Pool(factory Factory, capacity, maxCap int) *ResourcePool {
	rp := &ResourcePool{
		resources:    make(chan resourceWrapper, maxCap),
		factory:      factory,
		available:    sync2.NewAtomicInt64(int64(capacity)),
		capacity:     sync2.NewAtomicInt64(int64(capacity)),
		idleTimeout:  sync2.NewAtomicDuration(0),
		baseCapacity: sync2.NewAtomicInt64(int64(capacity)),
		maxCapacity:  sync2.NewAtomicInt64(int64(maxCap)),
		lock:         &sync.Mutex{},
		scaleInTodo:  make(chan int8, 1),
		Dynamic:      true,
	}
	for i := 0; i < capacity; i++ {
		rp.resources <- resourceWrapper{}
	}
	return rp
}

//verif:harness prop=C24 sched=symbolic:2 noreplay=1 bounds="(engine-only: Go offers no way to force a schedule natively; the gated harness below replays natively) pool with capacity 1 and maximum 2 (dynamic scale-out on), three clients (the first takes the initial slot, then two run concurrently with its Put) each doing one Get, holding the connection across a scheduling point, and one Put; the factory contains a scheduling point; every interleaving at the pool's visible operations (channel, mutex, atomic) with at most 2 preemptions besides the free choice of the next client whenever one blocks or ends"
//verif:mock github.com/google/uuid.NewRandom vhC24UUID
func Harness_C24_GetPut() {
	created := 0
	factory := func() (Resource, error) {
		runtime.Gosched() // connecting takes time
		created++
		return &vhC24Res{id: created}, nil
	}
	rp := vhC24Pool(factory, 1, 2)
	out := 0
	held := map[Resource]bool{}
	done := make(chan bool, 3)
	client := func() {
		defer func() { done <- true }()
		r, err := rp.Get(context.Background())
		if err != nil {
			vs.Fail("C24/get-fails-on-an-open-pool")
			return
		}
		vs.Assert(r != nil && !held[r], "C24/connection-handed-to-one-holder-at-a-time")
		held[r] = true
		out++
		vs.Assert(out <= 2, "C24/handed-out-within-the-maximum-capacity")
		vs.Assert(rp.Capacity() <= rp.MaxCap(), "C24/capacity-within-the-maximum")
		runtime.Gosched() // use the connection
		held[r] = false
		out--
		func() {
			defer func() {
				if recover() != nil {
					vs.Fail("C24/returning-a-connection-fails")
				}
			}()
			rp.Put(r)
		}()
	}
	// the harness itself is the first client: it takes the pool's only initial slot
	r0, err := rp.Get(context.Background())
	vs.Assert(err == nil && r0 != nil, "C24/first-get")
	held[r0] = true
	out++
	for i := 0; i < 2; i++ {
		go client()
	}
	runtime.Gosched()
	held[r0] = false
	out--
	rp.Put(r0)
	for i := 0; i < 2; i++ {
		<-done
	}
	// quiescent
	vs.Assert(rp.InUse() == 0 && rp.Available() == rp.Capacity(), "C24/idle-plus-in-use-equals-capacity-at-rest")
	vs.Assert(int64(len(rp.resources)) == rp.Capacity(), "C24/every-slot-is-back-in-the-pool")
	vs.Cover("C24/done")
}

// vhC24Settle lets the other goroutines run until they block: under the engine the scheduler runs
// them to their next blocking operation, natively a short sleep does.
func vhC24Settle() {
	if vs.Symbolic() {
		runtime.Gosched()
		return
	}
	time.Sleep(20 * time.Millisecond)
}

//verif:harness prop=C24 bounds="pool with capacity 1 and maximum 2..3; the harness holds the initial slot; up to 3 clients are started and every factory call blocks on a gate; every order of 5 actions {start a client, let a blocked factory call finish or fail, return the held connection, scale-in tick (ScaleCapacity to capacity-1 when above base), SetCapacity(2)} with the other goroutines run to their next blocking point between actions; then everything is released and the pool is checked at rest"
//verif:mock github.com/google/uuid.NewRandom vhC24UUID
func Harness_C24_GatedFactory() {
	maxCap := vs.IntRange("maxCapacity", 2, 3)
	created := 0
	entered := make(chan int, 8)
	release := map[int]chan bool{}
	var mu sync.Mutex
	factory := func() (Resource, error) {
		mu.Lock()
		created++
		n := created
		gate := make(chan bool, 1)
		release[n] = gate
		mu.Unlock()
		entered <- n
		if ok := <-gate; !ok {
			return nil, context.DeadlineExceeded
		}
		return &vhC24Res{id: n}, nil
	}
	rp := vhC24Pool(factory, 1, maxCap)
	out := 0
	held := map[Resource]bool{}
	done := make(chan bool, 8)
	violation := ""
	note := func(ok bool, id string) {
		if !ok && violation == "" {
			violation = id
		}
	}
	client := func() {
		defer func() { done <- true }()
		r, err := rp.Get(context.Background())
		if err != nil {
			return // the factory failed three times or the pool was closed
		}
		mu.Lock()
		note(r != nil && !held[r], "C24/connection-handed-to-one-holder-at-a-time")
		held[r] = true
		out++
		note(out <= maxCap, "C24/handed-out-within-the-maximum-capacity")
		note(rp.Capacity() <= rp.MaxCap(), "C24/capacity-within-the-maximum")
		held[r] = false
		out--
		mu.Unlock()
		func() {
			defer func() {
				if recover() != nil {
					mu.Lock()
					note(false, "C24/returning-a-connection-fails")
					mu.Unlock()
				}
			}()
			rp.Put(r)
		}()
	}
	// the first factory call (for the harness's own connection) is let through at once
	go func() { n := <-entered; release[n] <- true }()
	r0, err := rp.Get(context.Background())
	vs.Assert(err == nil && r0 != nil, "C24/first-get")
	out++
	holding := true
	started, finished := 0, 0
	var pending []int // factory calls waiting at their gate
	drain := func() {
		for {
			select {
			case n := <-entered:
				pending = append(pending, n)
				continue
			default:
			}
			break
		}
		for {
			select {
			case <-done:
				finished++
				continue
			default:
			}
			break
		}
	}
	background := func(f func()) {
		started++
		go func() {
			defer func() { done <- true }()
			f()
		}()
	}
	clients := 0
	for step := 0; step < 5; step++ {
		vhC24Settle()
		drain()
		switch vs.Choice("action", 5) {
		case 0:
			if clients < 3 {
				clients++
				started++
				go client()
			}
		case 1:
			if len(pending) > 0 {
				n := pending[0]
				pending = pending[1:]
				release[n] <- vs.Choice("factoryOK", 2) == 1
			}
		case 2:
			if holding {
				holding = false
				mu.Lock()
				out--
				mu.Unlock()
				rp.Put(r0)
			}
		case 3:
			if c := rp.Capacity(); c > rp.baseCapacity.Get() {
				background(func() { rp.ScaleCapacity(int(c) - 1) }) // what a scale-in tick starts, in its own goroutine
			}
		case 4:
			background(func() { rp.SetCapacity(2) }) // blocks until a slot can be taken out when it shrinks the pool
		}
	}
	// release everything and wait for the pool to come to rest
	if holding {
		mu.Lock()
		out--
		mu.Unlock()
		rp.Put(r0)
	}
	for finished < started {
		vhC24Settle()
		drain()
		for _, n := range pending {
			release[n] <- true
		}
		pending = nil
	}
	mu.Lock()
	v := violation
	mu.Unlock()
	vs.Assert(v != "C24/connection-handed-to-one-holder-at-a-time", "C24/connection-handed-to-one-holder-at-a-time")
	vs.Assert(v != "C24/handed-out-within-the-maximum-capacity", "C24/handed-out-within-the-maximum-capacity")
	vs.Assert(v != "C24/capacity-within-the-maximum", "C24/capacity-within-the-maximum")
	vs.Assert(v != "C24/returning-a-connection-fails", "C24/returning-a-connection-fails")
	vs.Assert(rp.InUse() == 0 && rp.Available() == rp.Capacity(), "C24/idle-plus-in-use-equals-capacity-at-rest")
	vs.Assert(int64(len(rp.resources)) == rp.Capacity(), "C24/every-slot-is-back-in-the-pool")
	vs.Cover("C24/gated-done")
}
