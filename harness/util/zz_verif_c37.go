package util

// C37 — idle sessions are closed on time and active ones are not.

import (
	"runtime"
	"sync"
	"time"

	vs "github.com/XiaoMi/Gaea/zz_verifsym"
)

// vhC37Settle lets the callback goroutines started by handleTick run.
func vhC37Settle() {
	for i := 0; i < 4; i++ {
		runtime.Gosched()
	}
	if !vs.Symbolic() {
		time.Sleep(3 * time.Millisecond)
	}
}

// BMC: a real TimeWheel driven directly (add / remove / handleTick in the order
// the wheel's own loop calls them), two keys, every sequence of k operations.
//
// Time model: handleTick number j happens at time j*tick; an add handled just
// before tick j records activity in ((j-1)*tick, j*tick].  A registration with a
// timeout of d ticks may therefore fire at tick j+d or j+d+1 (no earlier than
// the timeout after the activity, no later than one tick after that), must have
// fired by tick j+d+1, and fires once.
//
//verif:harness prop=C37 maxpaths=4000000 bounds="wheel of N=1..3 buckets (quick) / 1..4 (thorough), tick 1s; 2 keys; every sequence of k=4 (quick) / 5 (thorough) operations from {add/refresh with a timeout of 1, N, N+1, 2N or 3N+1 ticks, remove, tick}"
func Harness_C37_TimeWheelBMC() {
	N := vs.IntRange("N", 1, vs.Pick(3, 4))
	k := vs.Pick(4, 5)
	delays := []int{1}
	for _, d := range []int{N, N + 1, 2 * N, 3*N + 1} {
		dup := false
		for _, e := range delays {
			dup = dup || e == d
		}
		if !dup {
			delays = append(delays, d)
		}
	}
	tw, err := NewTimeWheel(time.Second, N)
	vs.Assert(err == nil, "C37/wheel-built")
	keys := []string{"a", "b"}
	var mu sync.Mutex
	fired := make([]int, len(keys))
	type reg struct {
		active bool
		due    int // first tick at which it may fire
	}
	regs := make([]reg, len(keys))
	tickNo := 0
	for s := 0; s < k; s++ {
		switch vs.Choice("op", 3) {
		case 0: // add or refresh
			ki := vs.Choice("key", len(keys))
			d := delays[vs.Choice("delay", len(delays))]
			kk := ki
			tw.add(&Task{delay: time.Duration(d) * time.Second, key: keys[ki], callback: func() {
				mu.Lock()
				fired[kk]++
				mu.Unlock()
			}})
			regs[ki] = reg{true, tickNo + 1 + d}
		case 1: // remove
			ki := vs.Choice("key", len(keys))
			tw.remove(keys[ki])
			regs[ki].active = false
		case 2: // tick
			mu.Lock()
			before := append([]int(nil), fired...)
			mu.Unlock()
			tw.handleTick()
			tickNo++
			vhC37Settle()
			mu.Lock()
			for i := range keys {
				n := fired[i] - before[i]
				vs.Assert(n <= 1, "C37/fires-at-most-once-per-tick")
				if n == 1 {
					vs.Assert(regs[i].active, "C37/fires-only-for-a-live-registration")
					vs.Assert(tickNo >= regs[i].due, "C37/not-before-timeout-after-latest-activity")
					vs.Assert(tickNo <= regs[i].due+1, "C37/not-later-than-one-tick-after-timeout")
					regs[i].active = false
					vs.Cover("C37/fired")
				} else if regs[i].active {
					vs.Assert(tickNo < regs[i].due+1, "C37/due-registration-fires")
				}
			}
			mu.Unlock()
		}
	}
	vs.Cover("C37/done")
}
