// vcheck: solver-based check of one property of /repo (see /verif/DESIGN.md).
package main

import (
	"flag"
	"fmt"
	"os"
	"runtime"
	"strconv"

	"verif/engine/gosym"
)

func main() {
	tier := flag.String("tier", "", "quick | thorough (default: $VERIF_TIER or quick)")
	workers := flag.Int("workers", 0, "number of workers (default: min(16, NumCPU))")
	verif := flag.String("verif", "/verif", "verification directory")
	verbose := flag.Bool("v", false, "verbose")
	trace := flag.Bool("trace", false, "trace SSA instructions")
	only := flag.String("only", "", "run only harnesses whose name contains this")
	noreplay := flag.Bool("noreplay", false, "skip native replay (diagnostic only; violations are then unconfirmed)")
	slog := flag.String("solverlog", "", "write worker 0's SMT-LIB dialogue to this file")
	flag.Parse()
	if flag.NArg() != 1 {
		fmt.Fprintln(os.Stderr, "usage: vcheck [flags] Cxx")
		os.Exit(2)
	}
	t := *tier
	if t == "" {
		t = os.Getenv("VERIF_TIER")
	}
	if t == "" {
		t = "quick"
	}
	w := *workers
	if w == 0 {
		w = runtime.NumCPU()
		if w > 16 {
			w = 16
		}
	}
	seed, _ := strconv.Atoi(os.Getenv("VERIF_SEED"))
	code := gosym.RunCheck(gosym.CheckOptions{Prop: flag.Arg(0), Tier: t, Workers: w, VerifDir: *verif,
		Verbose: *verbose, Trace: *trace, Only: *only, NoReplay: *noreplay, Seed: seed, SolverLog: *slog})
	gosym.DumpForkProfile()
	os.Exit(code)
}
