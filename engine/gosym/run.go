package gosym

// Loading /repo with the harness overlay, building SSA, discovering harnesses
// and running the exploration of one harness on N workers.

import (
	"bufio"
	"fmt"
	"go/token"
	"os"
	"path/filepath"
	"regexp"
	"sort"
	"strconv"
	"strings"
	"sync"
	"time"

	"golang.org/x/tools/go/packages"
	"golang.org/x/tools/go/ssa"
	"golang.org/x/tools/go/ssa/ssautil"
)

const tokenADD = token.ADD

const (
	RepoDir    = "/repo"
	ModulePath = "github.com/XiaoMi/Gaea"
	VsPkgPath  = ModulePath + "/zz_verifsym"
)

type HarnessSpec struct {
	Prop      string
	Name      string
	PkgDir    string // repo-relative package dir ("mysql")
	PkgPath   string
	File      string // harness source file in /verif/harness
	Tier      string // "quick", "thorough", "both"
	Sched     string // "", "symbolic:K"
	MaxPaths  int
	Unwind    int
	Stubs     map[string]string // target function -> harness function name
	Mocks     map[string]string // subset of Stubs that is also patched natively (mockey)
	Doc       string            // bounds text
	Steps     int64
	TimeoutS  int
	NoReplay  bool
	MapOrderBoth bool // maporder=both: explore map ranges in insertion order and in reverse
	ScaleFrom int64 // scaleconst: constant value replaced ...
	ScaleTo   int64 // ... by this one (0,0 = off)
}

type Program struct {
	Prog     *ssa.Program
	Pkgs     []*packages.Package
	Harness  []*HarnessSpec
	Overlay  map[string][]byte
	HarnessD string
	LoadTime time.Duration
	workers  []*worker
}

// ensureWorkers creates the worker pool (interpreter + solver each) once per check.
func (pg *Program) ensureWorkers(n int, cfg RunConfig) error {
	for len(pg.workers) < n {
		wi := len(pg.workers)
		var logw *os.File
		if cfg.SolverLog != "" && wi == 0 {
			logw, _ = os.Create(cfg.SolverLog)
		}
		var solver *Solver
		var err error
		z3ms := cfg.TimeoutMs / 4
		if z3ms < 2000 {
			z3ms = 2000
		}
		if logw != nil {
			solver, err = NewSolver("z3", z3ms, logw)
		} else {
			solver, err = NewSolver("z3", z3ms, nil)
		}
		if err != nil {
			return err
		}
		in := newInterpreter(pg.Prog, VsPkgPath)
		pg.workers = append(pg.workers, &worker{id: wi, in: in, solver: solver})
	}
	return nil
}

// Close terminates the solver processes.
func (pg *Program) Close() {
	for _, w := range pg.workers {
		w.solver.Close()
	}
	pg.workers = nil
}

var directiveRe = regexp.MustCompile(`^//verif:(\w+)\s*(.*)$`)
var funcRe = regexp.MustCompile(`^func\s+(Harness_\w+)\s*\(`)

// DiscoverHarnesses scans /verif/harness for harness files and their directives.
func DiscoverHarnesses(harnessDir string) ([]*HarnessSpec, map[string][]byte, error) {
	overlay := make(map[string][]byte)
	var specs []*HarnessSpec
	err := filepath.Walk(harnessDir, func(path string, info os.FileInfo, err error) error {
		if err != nil {
			return err
		}
		if info.IsDir() || !strings.HasSuffix(path, ".go") {
			return nil
		}
		rel, _ := filepath.Rel(harnessDir, path)
		data, err := os.ReadFile(path)
		if err != nil {
			return err
		}
		dir := filepath.Dir(rel)
		if dir == "verifsym" {
			overlay[filepath.Join(RepoDir, "zz_verifsym", filepath.Base(rel))] = data
			return nil
		}
		overlay[filepath.Join(RepoDir, rel)] = data
		// parse directives
		sc := bufio.NewScanner(strings.NewReader(string(data)))
		sc.Buffer(make([]byte, 1<<20), 1<<20)
		var pending []string
		for sc.Scan() {
			line := sc.Text()
			if m := directiveRe.FindStringSubmatch(strings.TrimSpace(line)); m != nil {
				pending = append(pending, m[1]+" "+m[2])
				continue
			}
			if m := funcRe.FindStringSubmatch(line); m != nil {
				spec := &HarnessSpec{Name: m[1], PkgDir: dir, PkgPath: ModulePath + "/" + filepath.ToSlash(dir), File: path,
					Tier: "both", Stubs: map[string]string{}, MaxPaths: 200000}
				isHarness := false
				for _, d := range pending {
					kind, rest, _ := strings.Cut(d, " ")
					switch kind {
					case "harness":
						isHarness = true
						for _, kv := range splitFields(rest) {
							k, v, _ := strings.Cut(kv, "=")
							v = strings.Trim(v, "\"")
							switch k {
							case "prop":
								spec.Prop = v
							case "tier":
								spec.Tier = v
							case "sched":
								spec.Sched = v
							case "maxpaths":
								spec.MaxPaths, _ = strconv.Atoi(v)
							case "unwind":
								spec.Unwind, _ = strconv.Atoi(v)
							case "steps":
								n, _ := strconv.ParseInt(v, 10, 64)
								spec.Steps = n
							case "timeout":
								spec.TimeoutS, _ = strconv.Atoi(v)
							case "bounds":
								spec.Doc = v
							case "noreplay":
								spec.NoReplay = v == "1" || v == "true"
							case "maporder":
								spec.MapOrderBoth = v == "both"
							case "scaleconst":
								// FROM:TO -- every integer constant FROM of the target code evaluates to TO
								// (a scaled-down frame limit); such a harness cannot replay natively
								if a, b, ok := strings.Cut(v, ":"); ok {
									spec.ScaleFrom, _ = strconv.ParseInt(a, 10, 64)
									spec.ScaleTo, _ = strconv.ParseInt(b, 10, 64)
									spec.NoReplay = true
								}
							}
						}
					case "stub", "mock":
						// stub: replaced under the engine only (native replays run the real
						// function); mock: replaced under the engine and, natively, with mockey
						f := strings.Fields(rest)
						if len(f) == 2 {
							spec.Stubs[f[0]] = f[1]
							if kind == "mock" {
								if spec.Mocks == nil {
									spec.Mocks = map[string]string{}
								}
								spec.Mocks[f[0]] = f[1]
							}
						}
					case "bounds":
						spec.Doc = strings.TrimSpace(rest)
					}
				}
				if isHarness {
					if spec.Prop == "" {
						if i := strings.Index(spec.Name, "_C"); i >= 0 && len(spec.Name) >= i+4 {
							spec.Prop = spec.Name[i+1 : i+4]
						}
					}
					specs = append(specs, spec)
				}
				pending = nil
				continue
			}
			if strings.TrimSpace(line) != "" && !strings.HasPrefix(strings.TrimSpace(line), "//") {
				pending = nil
			}
		}
		return nil
	})
	sort.Slice(specs, func(i, j int) bool { return specs[i].Name < specs[j].Name })
	return specs, overlay, err
}

// splitFields splits on spaces outside double quotes.
func splitFields(s string) []string {
	var out []string
	var cur strings.Builder
	inq := false
	for _, r := range s {
		switch {
		case r == '"':
			inq = !inq
			cur.WriteRune(r)
		case r == ' ' && !inq:
			if cur.Len() > 0 {
				out = append(out, cur.String())
				cur.Reset()
			}
		default:
			cur.WriteRune(r)
		}
	}
	if cur.Len() > 0 {
		out = append(out, cur.String())
	}
	return out
}

// Load loads the packages containing the given harnesses (plus the vs package) and builds SSA.
func Load(harnessDir string, props []string) (*Program, error) {
	t0 := time.Now()
	specs, overlay, err := DiscoverHarnesses(harnessDir)
	if err != nil {
		return nil, err
	}
	want := map[string]bool{}
	for _, p := range props {
		want[p] = true
	}
	var sel []*HarnessSpec
	pkgSet := map[string]bool{}
	for _, s := range specs {
		if len(want) == 0 || want[s.Prop] {
			sel = append(sel, s)
			pkgSet[s.PkgPath] = true
		}
	}
	if len(sel) == 0 {
		return nil, fmt.Errorf("no harness found for %v", props)
	}
	// only overlay harness files of the selected packages (others may not compile together)
	ov := map[string][]byte{}
	for path, data := range overlay {
		dir := filepath.Dir(path)
		rel, _ := filepath.Rel(RepoDir, dir)
		// shared fakes (zz_verif_fakes*.go) are always overlaid so that harnesses of
		// other packages can use them
		if rel == "zz_verifsym" || pkgSet[ModulePath+"/"+filepath.ToSlash(rel)] || strings.HasPrefix(filepath.Base(path), "zz_verif_fakes") {
			ov[path] = data
		}
	}
	patterns := []string{VsPkgPath}
	for p := range pkgSet {
		patterns = append(patterns, p)
	}
	sort.Strings(patterns)
	cfg := &packages.Config{
		Mode: packages.NeedName | packages.NeedFiles | packages.NeedCompiledGoFiles | packages.NeedImports |
			packages.NeedDeps | packages.NeedTypes | packages.NeedSyntax | packages.NeedTypesInfo | packages.NeedTypesSizes | packages.NeedModule,
		Dir:     RepoDir,
		Env:     append(os.Environ(), "GOFLAGS=-mod=mod", "GOPROXY=off", "GOSUMDB=off", "GOTOOLCHAIN=local", "CGO_ENABLED=0"),
		Overlay: ov,
	}
	pkgs, err := packages.Load(cfg, patterns...)
	if err != nil {
		return nil, err
	}
	var errs []string
	packages.Visit(pkgs, nil, func(p *packages.Package) {
		for _, e := range p.Errors {
			if len(errs) < 20 {
				errs = append(errs, e.Error())
			}
		}
	})
	if len(errs) > 0 {
		return nil, fmt.Errorf("package load errors:\n%s", strings.Join(errs, "\n"))
	}
	prog, _ := ssautil.AllPackages(pkgs, ssa.InstantiateGenerics)
	prog.Build()
	initReflectProg(prog)
	return &Program{Prog: prog, Pkgs: pkgs, Harness: sel, Overlay: ov, HarnessD: harnessDir, LoadTime: time.Since(t0)}, nil
}

// RunConfig controls one harness exploration.
type RunConfig struct {
	Tier      int
	Workers   int
	TimeoutMs int // per query
	Budget    time.Duration
	Known     []KnownFinding
	Verbose   bool
	Trace     bool
	SolverLog string
}

func (p *Path) note(s string) {
	p.res.mu.Lock()
	p.res.Notes[s] = true
	p.res.mu.Unlock()
}

// RunHarness explores all paths of one harness.
func (pg *Program) RunHarness(spec *HarnessSpec, cfg RunConfig) (*HarnessResult, error) {
	pkg := pg.Prog.ImportedPackage(spec.PkgPath)
	if pkg == nil {
		return nil, fmt.Errorf("package %s not loaded", spec.PkgPath)
	}
	fn := pkg.Func(spec.Name)
	if fn == nil {
		return nil, fmt.Errorf("harness %s not found in %s", spec.Name, spec.PkgPath)
	}
	res := newHarnessResult(spec.Name)
	budget := cfg.Budget
	if spec.TimeoutS > 0 {
		budget = time.Duration(spec.TimeoutS) * time.Second
	}
	ex := &Explorer{Harness: spec.Name, Tier: cfg.Tier, MaxPaths: spec.MaxPaths, MaxDecision: 20000,
		StepLimit: 200_000_000, Deadline: time.Now().Add(budget), Known: cfg.Known, Verbose: cfg.Verbose, res: res, FallbackMs: cfg.TimeoutMs}
	if spec.Unwind > 0 {
		ex.MaxDecision = spec.Unwind
	}
	if spec.Steps > 0 {
		ex.StepLimit = spec.Steps
	}
	ex.cond = sync.NewCond(&ex.mu)
	ex.stack = []*WorkItem{{}}
	t0 := time.Now()
	var wg sync.WaitGroup
	nw := cfg.Workers
	if nw < 1 {
		nw = 1
	}
	errc := make(chan error, nw)
	if err := pg.ensureWorkers(nw, cfg); err != nil {
		return res, err
	}
	for wi := 0; wi < nw; wi++ {
		wg.Add(1)
		go func(w *worker) {
			defer wg.Done()
			in := w.in
			solver := w.solver
			q0, t0s, s0, u0, k0 := solver.Queries, solver.Time, solver.NSat, solver.NUnsat, solver.NUnk
			f0, fu0, ft0 := solver.Fallbacks, solver.FallbackUnsat, solver.FallbackTime
			solver.Errors = nil
			in.trace = cfg.Trace
			in.funcsSeen = make(map[*ssa.Function]bool)
			in.stubs = make(map[string]*ssa.Function)
			for target, hname := range spec.Stubs {
				hf := pkg.Func(hname)
				if hf == nil {
					errc <- fmt.Errorf("stub function %s not found", hname)
					return
				}
				in.stubs[target] = hf
			}
			for {
				it := ex.pop()
				if it == nil {
					break
				}
				w.runPath(ex, spec, fn, it)
				ex.done()
			}
			res.mu.Lock()
			res.Queries += solver.Queries - q0
			res.SolverTime += solver.Time - t0s
			res.Sat += solver.NSat - s0
			res.Unsat += solver.NUnsat - u0
			res.Unknown += solver.NUnk - k0
			res.Fallbacks += solver.Fallbacks - f0
			res.FallbackUnsat += solver.FallbackUnsat - fu0
			res.SolverTime += solver.FallbackTime - ft0
			for _, e := range solver.Errors {
				res.Inconclusive["solver error: "+e]++
			}
			for f := range in.funcsSeen {
				if f.Pkg != nil && strings.HasPrefix(f.Pkg.Pkg.Path(), ModulePath) && !strings.Contains(f.Pkg.Pkg.Path(), "zz_verifsym") && !strings.HasPrefix(f.Name(), "Harness_") && !strings.HasPrefix(f.Name(), "vh") {
					res.Funcs[f.String()] = true
				}
			}
			for pkgPath, msg := range in.initFail {
				if strings.HasPrefix(pkgPath, ModulePath) {
					res.Inconclusive["init of "+pkgPath+" failed: "+msg]++
				} else {
					res.Notes["init of "+pkgPath+" incomplete: "+msg] = true
				}
			}
			res.mu.Unlock()
		}(pg.workers[wi])
	}
	wg.Wait()
	res.Wall = time.Since(t0)
	select {
	case err := <-errc:
		return res, err
	default:
	}
	return res, nil
}

// runPath executes the harness once along the item's decision prefix.
func (w *worker) runPath(ex *Explorer, spec *HarnessSpec, fn *ssa.Function, it *WorkItem) {
	in := w.in
	res := ex.res
	p := &Path{ex: ex, w: w, tt: NewTermTable(), prefix: it.Prefix, model: it.Model, smt: newSMTWriter(),
		tags: map[string]*Term{}, tagSigned: map[string]bool{}, res: res}
	if p.model == nil {
		p.model = Model{}
	}
	in.path = p
	in.lastPanicWhere = ""
	in.steps = 0
	in.stepLimit = ex.StepLimit
	in.trailOn = true
	in.resetScheduler()
	in.scaleFrom, in.scaleTo = spec.ScaleFrom, spec.ScaleTo
	in.mapOrderBoth, in.mapOrderDecided, in.mapOrderRev = spec.MapOrderBoth, false, false
	if strings.HasPrefix(spec.Sched, "symbolic") {
		in.sched.symbolic = true
		in.sched.maxPreempt = 2
		if _, k, ok := strings.Cut(spec.Sched, ":"); ok {
			in.sched.maxPreempt, _ = strconv.Atoi(k)
		}
	}
	gen := w.solver.Gen
	w.solver.BeginPath()
	w.solver.Push()
	var outcome string
	var detail string
	func() {
		defer func() {
			r := recover()
			if r == nil {
				return
			}
			switch x := r.(type) {
			case engineAbort:
				outcome, detail = x.kind, x.msg
			case targetPanic:
				outcome, detail = "panic", toString(x.v)
			case goroutinePanic:
				outcome, detail = "panic", "unrecovered panic in goroutine: "+toString(x.p.v)
			default:
				outcome, detail = "unsupported", fmt.Sprintf("engine fault: %v", x)
			}
		}()
		call(in, nil, token.NoPos, fn, nil)
		in.sched.checkAbort()
		outcome = "ok"
	}()
	// panics raised while the top frame unwinds arrive classified by runFrame; a
	// targetPanic escaping the harness is a violation of id "panic".
	switch outcome {
	case "ok":
		res.mu.Lock()
		res.Paths++
		if len(res.SampleModels) < 3 && len(p.nondets) > 0 {
			if p.model != nil {
				vals, _ := p.snapshotValues(p.model)
				res.SampleModels = append(res.SampleModels, vals)
			}
		}
		res.mu.Unlock()
	case "assume":
		res.mu.Lock()
		res.AssumeCut++
		res.mu.Unlock()
	case "panic", "fatal", "deadlock":
		res.mu.Lock()
		res.PanicPaths++
		res.mu.Unlock()
		func() {
			defer func() {
				if r := recover(); r != nil {
					if ea, ok := r.(engineAbort); ok && ea.kind == "assume" {
						return
					}
					p.inconclusive(fmt.Sprintf("while reporting a %s: %v", outcome, r))
				}
			}()
			id := outcome
			p.Fail(id, p.tt.Bool(true), detail, in.lastPanicWhere)
		}()
	default:
		key := outcome + ": " + detail
		res.mu.Lock()
		res.Inconclusive[key]++
		res.mu.Unlock()
	}
	res.mu.Lock()
	res.Steps += in.steps
	res.mu.Unlock()
	in.sched.killAll()
	in.path = nil
	in.sched = nil
	in.trailOn = false
	in.rollback()
	if w.solver.Gen == gen {
		w.solver.Pop()
	}
}

// Ensure unique, stable output of map keys.
func sortedBoolKeys(m map[string]bool) []string {
	ks := make([]string, 0, len(m))
	for k := range m {
		ks = append(ks, k)
	}
	sort.Strings(ks)
	return ks
}
