package gosym

// Translator validation for the term layer: every operator's SMT rendering
// (including the divider-free encoding of division by constants) must agree
// with the evaluator (which mirrors Go's semantics) on random and boundary
// operands, and the encoding must determine the result uniquely.

import (
	"math/rand"
	"testing"
)

func boundaryVals(w uint8) []uint64 {
	m := mask(w)
	return []uint64{0, 1, 2, 3, 4, 5, 7, 9, 10, 250, 251, 255, 256, m, m - 1, m >> 1, (m >> 1) + 1, (m >> 1) + 2, m / 3, m / 5, m/5 + 1, m - 4}
}

func TestOpsAgainstSolver(t *testing.T) {
	s, err := NewSolver("z3", 20000, nil)
	if err != nil {
		t.Skip("no z3")
	}
	defer s.Close()
	rng := rand.New(rand.NewSource(1))
	ops := []Op{OpAdd, OpSub, OpMul, OpUdiv, OpUrem, OpSdiv, OpSrem, OpBand, OpBor, OpBxor, OpShl, OpLshr, OpAshr}
	cmps := []Op{OpUlt, OpUle, OpSlt, OpSle}
	n := 0
	for _, w := range []uint8{8, 16, 32, 64} {
		vals := boundaryVals(w)
		for i := 0; i < 12; i++ {
			vals = append(vals, rng.Uint64()&mask(w))
		}
		for _, op := range ops {
			for k := 0; k < 40; k++ {
				xv := vals[rng.Intn(len(vals))] & mask(w)
				cv := vals[rng.Intn(len(vals))] & mask(w)
				if (op == OpUdiv || op == OpUrem || op == OpSdiv || op == OpSrem) && cv == 0 {
					continue
				}
				tt := NewTermTable()
				x := tt.Var(w, "x")
				term := tt.Bin(op, x, tt.Const(w, cv))
				want := term.Eval(Model{"x": xv}, map[*Term]uint64{})
				wr := newSMTWriter()
				s.Push()
				s.Declare("x", w)
				s.Assert("(= x " + constStr(w, xv) + ")")
				e := wr.ref(tt.Not(tt.Eq(term, tt.Const(w, want))))
				s.Raw(wr.sb.String())
				s.Assert(e)
				if r := s.Check(); r != Unsat {
					t.Fatalf("w=%d op=%s x=%#x c=%#x: encoding allows a result other than %#x (%v)", w, opNames[op], xv, cv, want, r)
				}
				s.Pop()
				n++
			}
		}
		for _, op := range cmps {
			for k := 0; k < 20; k++ {
				xv := vals[rng.Intn(len(vals))] & mask(w)
				cv := vals[rng.Intn(len(vals))] & mask(w)
				tt := NewTermTable()
				x := tt.Var(w, "x")
				term := tt.cmp(op, x, tt.Const(w, cv))
				want := term.Eval(Model{"x": xv}, map[*Term]uint64{})
				wr := newSMTWriter()
				s.Push()
				s.Declare("x", w)
				s.Assert("(= x " + constStr(w, xv) + ")")
				e := wr.ref(tt.Not(tt.Eq(term, tt.Bool(want == 1))))
				s.Raw(wr.sb.String())
				s.Assert(e)
				if r := s.Check(); r != Unsat {
					t.Fatalf("w=%d cmp=%s x=%#x c=%#x: want %d (%v)", w, opNames[op], xv, cv, want, r)
				}
				s.Pop()
				n++
			}
		}
	}
	t.Logf("%d operator instances agree with the solver", n)
}

// The divider-free encoding must also be *satisfiable* for every x (it must not restrict x).
func TestDivEncodingTotal(t *testing.T) {
	s, err := NewSolver("z3", 20000, nil)
	if err != nil {
		t.Skip("no z3")
	}
	defer s.Close()
	for _, w := range []uint8{8, 64} {
		for _, c := range []uint64{1, 2, 3, 5, 7, 10, 1000000000, mask(w) >> 1} {
			for _, op := range []Op{OpUdiv, OpUrem, OpSdiv, OpSrem} {
				if c&mask(w) == 0 {
					continue
				}
				for _, xv := range boundaryVals(w) {
					xv &= mask(w)
					tt := NewTermTable()
					x := tt.Var(w, "x")
					term := tt.Bin(op, x, tt.Const(w, c))
					wr := newSMTWriter()
					s.Push()
					s.Declare("x", w)
					s.Assert("(= x " + constStr(w, xv) + ")")
					e := wr.ref(tt.Eq(term, term))
					_ = e
					e2 := wr.ref(tt.Eq(tt.Bin(OpAdd, term, tt.Const(w, 0)), term))
					_ = e2
					r := wr.ref(term)
					s.Raw(wr.sb.String())
					s.Assert("(= " + r + " " + r + ")")
					if res := s.Check(); res != Sat {
						t.Fatalf("w=%d op=%s c=%#x x=%#x: definitional constraints unsatisfiable (%v)", w, opNames[op], c, xv, res)
					}
					s.Pop()
				}
			}
		}
	}
}
