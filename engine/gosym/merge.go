package gosym

// Merging of pure diamonds / triangles into ite terms instead of forking:
//
//	if c { x = a } else { x = b }      a && b      a || b
//
// When an If on a symbolic condition leads to arm blocks that contain only
// side-effect-free instructions and rejoin immediately, the arms are
// evaluated speculatively (any panic or any need for a decision aborts the
// speculation and the engine forks as usual) and the phis of the join block
// become ite(c, vT, vF).  Nested short-circuit chains are merged recursively
// because the arm evaluation itself goes through visitInstr only for pure
// instructions and the join of an inner region may be the arm of an outer one.

import (
	"go/token"
	"go/types"
	"sync"

	"golang.org/x/tools/go/ssa"
)

var (
	armCacheMu sync.Mutex
	armCache   = map[*ssa.BasicBlock]bool{}
)

func pureInstr(instr ssa.Instruction) bool {
	switch i := instr.(type) {
	case *ssa.DebugRef, *ssa.ChangeType, *ssa.Field, *ssa.FieldAddr, *ssa.Extract, *ssa.IndexAddr, *ssa.Index, *ssa.ChangeInterface:
		return true
	case *ssa.BinOp:
		switch i.Op {
		case token.QUO, token.REM:
			return false
		case token.SHL, token.SHR:
			return !isSignedType(i.Y.Type())
		}
		return true
	case *ssa.UnOp:
		return i.Op != token.ARROW
	case *ssa.Convert:
		_, ok1 := i.Type().Underlying().(*types.Basic)
		_, ok2 := i.X.Type().Underlying().(*types.Basic)
		if !ok1 || !ok2 {
			return false
		}
		return widthOf(i.Type()) >= 0 && widthOf(i.X.Type()) >= 0
	}
	return false
}

// isArm: a block with a single predecessor, pure instructions and an unconditional jump.
func isArm(b *ssa.BasicBlock) bool {
	armCacheMu.Lock()
	v, ok := armCache[b]
	armCacheMu.Unlock()
	if ok {
		return v
	}
	v = len(b.Preds) == 1 && len(b.Succs) == 1 && len(b.Instrs) <= 24
	if v {
		if _, isJump := b.Instrs[len(b.Instrs)-1].(*ssa.Jump); !isJump {
			v = false
		}
	}
	if v {
		for _, instr := range b.Instrs[:len(b.Instrs)-1] {
			if _, isPhi := instr.(*ssa.Phi); isPhi || !pureInstr(instr) {
				v = false
				break
			}
		}
	}
	armCacheMu.Lock()
	armCache[b] = v
	armCacheMu.Unlock()
	return v
}

func predIndex(join, pred *ssa.BasicBlock) int {
	for i, p := range join.Preds {
		if p == pred {
			return i
		}
	}
	return -1
}

// iteValue builds ite(c, a, b) for scalar / string values.
func (in *interpreter) iteValue(c *Term, a, b value) (value, bool) {
	tt := in.path.tt
	ka, wa, oka := bitsOfConcrete(a)
	kb, wb, okb := bitsOfConcrete(b)
	ta, isTa := a.(*Term)
	tb, isTb := b.(*Term)
	if (oka || isTa) && (okb || isTb) {
		if oka && okb && wa == wb && ka == kb {
			return a, true
		}
		if oka {
			ta = tt.Const(wa, ka)
		}
		if okb {
			tb = tt.Const(wb, kb)
		}
		if ta.W != tb.W {
			return nil, false
		}
		r := tt.Ite(c, ta, tb)
		if r.Op == OpConst {
			if oka {
				return constLike(a, r.K), true
			}
			if okb {
				return constLike(b, r.K), true
			}
		}
		return r, true
	}
	if isStr(a) && isStr(b) {
		if sa, ok := a.(string); ok {
			if sb, ok := b.(string); ok && sa == sb {
				return a, true
			}
		}
		ba, bb := strBytes(a), strBytes(b)
		if len(ba) != len(bb) {
			return nil, false
		}
		r := make([]value, len(ba))
		for i := range ba {
			v, ok := in.iteValue(c, ba[i], bb[i])
			if !ok {
				return nil, false
			}
			r[i] = v
		}
		return mkstr(r), true
	}
	// identical references
	switch x := a.(type) {
	case *value:
		if y, ok := b.(*value); ok && x == y {
			return a, true
		}
	case iface:
		if y, ok := b.(iface); ok && x.t == nil && y.t == nil {
			return a, true
		}
	}
	return nil, false
}

// tryMerge attempts to replace the fork at the current If by ite-merging.
func (in *interpreter) tryMerge(fr *frame, cond *Term) (merged bool) {
	if in.noMerge {
		return false
	}
	b := fr.block
	t, f := b.Succs[0], b.Succs[1]
	if t == f {
		return false
	}
	var join, predT, predF *ssa.BasicBlock
	var arms []*ssa.BasicBlock
	switch {
	case isArm(t) && isArm(f) && t.Succs[0] == f.Succs[0]:
		join, predT, predF, arms = t.Succs[0], t, f, []*ssa.BasicBlock{t, f}
	case isArm(t) && t.Succs[0] == f:
		join, predT, predF, arms = f, t, b, []*ssa.BasicBlock{t}
	case isArm(f) && f.Succs[0] == t:
		join, predT, predF, arms = t, b, f, []*ssa.BasicBlock{f}
	default:
		return false
	}
	iT, iF := predIndex(join, predT), predIndex(join, predF)
	if iT < 0 || iF < 0 || iT == iF {
		return false
	}
	savedInstr := fr.curInstr
	in.spec = true
	defer func() {
		in.spec = false
		if r := recover(); r != nil {
			if ea, ok := r.(engineAbort); ok && ea.kind != "spec" && ea.kind != "unsupported" {
				panic(r)
			}
			// any target panic or decision during speculation: fork instead
			fr.curInstr = savedInstr
			merged = false
		}
	}()
	for _, arm := range arms {
		for _, instr := range arm.Instrs[:len(arm.Instrs)-1] {
			in.steps++
			visitInstr(fr, instr)
		}
	}
	var phis []*ssa.Phi
	var vals []value
	for _, instr := range join.Instrs {
		phi, ok := instr.(*ssa.Phi)
		if !ok {
			break
		}
		vT := fr.get(phi.Edges[iT])
		vF := fr.get(phi.Edges[iF])
		m, ok := in.iteValue(cond, vT, vF)
		if !ok {
			return false
		}
		phis = append(phis, phi)
		vals = append(vals, m)
	}
	for i, phi := range phis {
		fr.env[phi] = vals[i]
	}
	fr.prevBlock, fr.block = predT, join
	fr.skipPhis = true
	return true
}
