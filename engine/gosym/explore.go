package gosym

// Path exploration by re-execution along decision traces.

import (
	"fmt"
	"os"
	"sort"
	"strings"
	"sync"
	"time"
)

type Decision struct {
	Kind uint8    // 0 branch, 1 value, 2 choice
	Val  uint64   // branch: 1 = condition true; value: chosen value; choice: index
	Excl []uint64 // value: values excluded before choosing Val
}

type WorkItem struct {
	Prefix []Decision
	Model  Model
}

type Nondet struct {
	Name string `json:"n"`
	W    uint8  `json:"w"` // 0 = bool
	Sym  string `json:"-"`
	Val  uint64 `json:"-"`
	V    string `json:"v"`
}

// Violation: an assertion failure or escaped panic with a model.
type Violation struct {
	Harness string
	ID      string // assertion id, or "panic"
	Detail  string // panic message etc.
	Where   string
	Values  []Nondet
	Tags    map[string]uint64
	Trace   []Decision
	Known   string // id of the known finding it matches ("" = unlisted)
	Key     string
}

// KnownFinding: one entry of known_findings.json that applies to an assertion id.
type KnownFinding struct {
	ID       string `json:"id"`
	Property string `json:"property"`
	Harness  string `json:"harness,omitempty"`
	Assert   string `json:"assert"`         // assertion id, or "panic"
	When     string `json:"when,omitempty"` // Go boolean expression over tag names; empty = always
	What     string `json:"what"`
	Status   string `json:"status,omitempty"` // "known" (default) or "fixed"
	Commit   string `json:"commit,omitempty"`
}

// HarnessResult accumulates the outcome of all paths of one harness.
type HarnessResult struct {
	mu           sync.Mutex
	Name         string
	Paths        int // completed (returned normally or ended in a handled way)
	AssumeCut    int // paths cut by Assume
	Forks        int
	PanicPaths   int
	Inconclusive map[string]int // reason -> count
	IncDetail    []string
	Violations   []*Violation
	violSeen     map[string]int
	KnownHit     map[string]*Violation // known finding id -> witness
	Covers       map[string]int
	Asserts      map[string]int // assertion id -> times checked (queries or concrete)
	SampleModels [][]Nondet
	Queries      int
	SolverTime   time.Duration
	Sat, Unsat   int
	Unknown      int
	Fallbacks    int
	FallbackUnsat int
	Steps        int64
	Funcs        map[string]bool
	ContainedPan map[string]int
	Notes        map[string]bool
	Wall         time.Duration
}

func newHarnessResult(name string) *HarnessResult {
	return &HarnessResult{Name: name, Inconclusive: map[string]int{}, violSeen: map[string]int{},
		KnownHit: map[string]*Violation{}, Covers: map[string]int{}, Asserts: map[string]int{},
		Funcs: map[string]bool{}, ContainedPan: map[string]int{}, Notes: map[string]bool{}}
}

// Path is one execution of a harness along a decision prefix.
type Path struct {
	ex      *Explorer
	w       *worker
	tt      *TermTable
	prefix  []Decision
	pos     int
	trace   []Decision
	pc      []*Term
	model   Model // satisfies pc when non-nil
	memo    map[*Term]uint64
	smt     *smtWriter
	nondets []Nondet
	names   map[string]int
	tags    map[string]*Term
	tagSigned map[string]bool
	tagOrd  []string
	ndec    int
	runes   map[*Term]runeRec // first byte term -> symbolic rune it encodes
	notes   []string
	res     *HarnessResult
}

type worker struct {
	id     int
	in     *interpreter
	solver *Solver
}

type Explorer struct {
	Harness     string
	Tier        int
	MaxPaths    int
	MaxDecision int
	StepLimit   int64
	Deadline    time.Time
	Known       []KnownFinding
	Verbose     bool
	FallbackMs  int
	res         *HarnessResult

	mu      sync.Mutex
	cond    *sync.Cond
	stack   []*WorkItem
	active  int
	started int
	stop    bool
}

func (ex *Explorer) push(it *WorkItem) {
	ex.mu.Lock()
	ex.stack = append(ex.stack, it)
	ex.res.mu.Lock()
	ex.res.Forks++
	ex.res.mu.Unlock()
	ex.mu.Unlock()
	ex.cond.Signal()
}

func (ex *Explorer) pop() *WorkItem {
	ex.mu.Lock()
	defer ex.mu.Unlock()
	for {
		if ex.stop {
			return nil
		}
		if n := len(ex.stack); n > 0 {
			if ex.started >= ex.MaxPaths || time.Now().After(ex.Deadline) {
				ex.res.mu.Lock()
				ex.res.Inconclusive["budget: path/time limit reached with work left"] += n
				ex.res.mu.Unlock()
				ex.stack = nil
				ex.stop = true
				ex.cond.Broadcast()
				return nil
			}
			it := ex.stack[n-1]
			ex.stack = ex.stack[:n-1]
			ex.active++
			ex.started++
			if ex.Verbose && ex.started%2000 == 0 {
				fmt.Fprintf(os.Stderr, "  [%s] paths started=%d stack=%d prefixlen=%d\n", ex.Harness, ex.started, len(ex.stack), len(it.Prefix))
			}
			return it
		}
		if ex.active == 0 {
			ex.cond.Broadcast()
			return nil
		}
		ex.cond.Wait()
	}
}

func (ex *Explorer) done() {
	ex.mu.Lock()
	ex.active--
	if ex.active == 0 && len(ex.stack) == 0 {
		ex.cond.Broadcast()
	}
	ex.mu.Unlock()
}

// ---------------------------------------------------------------------
// Solver plumbing for a path.

func (p *Path) flushDefs() {
	if p.smt.sb.Len() > 0 {
		p.w.solver.Raw(p.smt.sb.String())
		p.smt.sb.Reset()
	}
}

// addPC adds a constraint to the path condition (and to the solver).
func (p *Path) addPC(c *Term) {
	if c.IsTrue() {
		return
	}
	p.pc = append(p.pc, c)
	e := p.smt.ref(c)
	p.flushDefs()
	p.w.solver.Assert(e)
	if p.model != nil && !p.evalBool(c) {
		p.model = nil
	}
}

func (p *Path) evalBool(c *Term) bool {
	if p.memo == nil {
		p.memo = make(map[*Term]uint64)
	}
	return c.Eval(p.model, p.memo) == 1
}

func (p *Path) setModel(m Model) {
	p.model = m
	p.memo = nil
}

func (p *Path) symNames() []string {
	names := make([]string, len(p.nondets))
	for i, n := range p.nondets {
		names[i] = n.Sym
	}
	return names
}

// checkWith asks whether pc ∧ extra... is satisfiable; on sat returns the model.
func (p *Path) checkWith(extra ...*Term) (SatResult, Model) {
	s := p.w.solver
	exprs := make([]string, len(extra))
	for i, e := range extra {
		exprs[i] = p.smt.ref(e)
	}
	p.flushDefs()
	s.Push()
	for _, e := range exprs {
		s.Assert(e)
	}
	r := s.Check()
	var m Model
	if r == Sat {
		var ok bool
		m, ok = s.Values(p.symNames())
		if !ok {
			r = Unknown
		}
	}
	if r == Unknown {
		// z3 timed out (or failed): decide the same query with the cvc5
		// integer-encoding fallback, then restore a fresh z3 with the path's context.
		r, m = s.Fallback(p.symNames(), p.ex.FallbackMs)
		if err := s.RestartWithContext(); err != nil || r == Unknown {
			s.Restart()
			panic(engineAbort{"solver", "unknown/timeout/error on a query (z3 and cvc5 fallback)"})
		}
	}
	s.Pop()
	return r, m
}

// ensureModel makes p.model valid (pc is known satisfiable on a live path).
func (p *Path) ensureModel() bool {
	if p.model != nil {
		return true
	}
	r, m := p.checkWith()
	if r == Sat {
		p.setModel(m)
		return true
	}
	if r == Unsat {
		// pc became unsatisfiable (can happen after Assume): cut the path
		panic(engineAbort{"assume", "path condition unsatisfiable"})
	}
	panic(engineAbort{"solver", "unknown while fetching a model"})
}

func (p *Path) inconclusive(reason string) {
	p.res.mu.Lock()
	p.res.Inconclusive[reason]++
	p.res.mu.Unlock()
}

func (p *Path) countDecision() {
	if p.w.in.spec {
		// decisions are not allowed while speculating; tryMerge falls back to forking
		panic(engineAbort{"spec", "decision during speculation"})
	}
	p.ndec++
	if p.ndec > p.ex.MaxDecision {
		panic(engineAbort{"unwind", fmt.Sprintf("more than %d symbolic decisions on one path (unwinding bound)", p.ex.MaxDecision)})
	}
}

func cloneTrace(t []Decision, extra Decision) []Decision {
	r := make([]Decision, len(t)+1)
	copy(r, t)
	r[len(t)] = extra
	return r
}

// Branch decides a symbolic condition, forking if both sides are feasible.
func (p *Path) Branch(c *Term) bool {
	if c.Op == OpConst {
		return c.K != 0
	}
	p.countDecision()
	tt := p.tt
	if p.pos < len(p.prefix) {
		d := p.prefix[p.pos]
		p.pos++
		if d.Kind != 0 {
			panic(engineAbort{"unsupported", "decision trace diverged (expected branch)"})
		}
		p.trace = append(p.trace, d)
		if d.Val == 1 {
			p.addPC(c)
			return true
		}
		p.addPC(tt.Not(c))
		return false
	}
	nc := tt.Not(c)
	if p.model != nil {
		side := p.evalBool(c)
		other := nc
		if !side {
			other = c
		}
		r, m := p.checkWith(other)
		if r == Sat {
			ov := uint64(1)
			if side {
				ov = 0
			}
			p.ex.push(&WorkItem{Prefix: cloneTrace(p.trace, Decision{Kind: 0, Val: ov}), Model: m})
		}
		if side {
			p.trace = append(p.trace, Decision{Kind: 0, Val: 1})
			p.addPC(c)
		} else {
			p.trace = append(p.trace, Decision{Kind: 0, Val: 0})
			p.addPC(nc)
		}
		return side
	}
	r1, m1 := p.checkWith(c)
	r2, m2 := p.checkWith(nc)
	switch {
	case r1 == Sat && r2 == Sat:
		p.ex.push(&WorkItem{Prefix: cloneTrace(p.trace, Decision{Kind: 0, Val: 0}), Model: m2})
		p.trace = append(p.trace, Decision{Kind: 0, Val: 1})
		p.addPC(c)
		p.setModel(m1)
		return true
	case r1 == Sat:
		p.trace = append(p.trace, Decision{Kind: 0, Val: 1})
		p.addPC(c)
		p.setModel(m1)
		return true
	case r2 == Sat:
		p.trace = append(p.trace, Decision{Kind: 0, Val: 0})
		p.addPC(nc)
		p.setModel(m2)
		return false
	case r1 == Unsat && r2 == Unsat:
		panic(engineAbort{"assume", "path condition unsatisfiable"})
	}
	panic(engineAbort{"solver", "unknown on both sides of a branch"})
}

// Concretize enumerates the feasible values of t (one path per value).
func (p *Path) Concretize(t *Term) uint64 {
	if t.Op == OpConst {
		return t.K
	}
	p.countDecision()
	tt := p.tt
	if p.pos < len(p.prefix) {
		d := p.prefix[p.pos]
		p.pos++
		if d.Kind != 1 {
			panic(engineAbort{"unsupported", "decision trace diverged (expected value)"})
		}
		if p.pos == len(p.prefix) && len(d.Excl) > 0 {
			// this work item is the head of a sibling chain: generate the next sibling
			nexcl := append(append([]uint64{}, d.Excl...), d.Val)
			if len(nexcl) > 4096 {
				panic(engineAbort{"unwind", "more than 4096 values for one concretised term"})
			}
			ne := tt.Bool(true)
			for _, x := range nexcl {
				ne = tt.And(ne, tt.Not(tt.Eq(t, tt.Const(t.W, x))))
			}
			r, m := p.checkWith(ne)
			if r == Sat {
				memo := make(map[*Term]uint64)
				v2 := t.Eval(m, memo)
				p.ex.push(&WorkItem{Prefix: cloneTrace(p.trace, Decision{Kind: 1, Val: v2, Excl: nexcl}), Model: m})
			}
		}
		p.trace = append(p.trace, d)
		p.addPC(tt.Eq(t, tt.Const(t.W, d.Val)))
		return d.Val
	}
	return p.concretizeNew(t, nil)
}

func (p *Path) concretizeNew(t *Term, excl []uint64) uint64 {
	tt := p.tt
	p.ensureModel()
	if p.memo == nil {
		p.memo = make(map[*Term]uint64)
	}
	v := t.Eval(p.model, p.memo)
	// sibling: any other value?
	ne := tt.Bool(true)
	nexcl := append(append([]uint64{}, excl...), v)
	for _, x := range nexcl {
		ne = tt.And(ne, tt.Not(tt.Eq(t, tt.Const(t.W, x))))
	}
	if len(nexcl) > 4096 {
		panic(engineAbort{"unwind", "more than 4096 values for one concretised term"})
	}
	r, m := p.checkWith(ne)
	if r == Sat {
		memo := make(map[*Term]uint64)
		v2 := t.Eval(m, memo)
		p.ex.push(&WorkItem{Prefix: cloneTrace(p.trace, Decision{Kind: 1, Val: v2, Excl: nexcl}), Model: m})
	}
	p.trace = append(p.trace, Decision{Kind: 1, Val: v, Excl: excl})
	p.addPC(tt.Eq(t, tt.Const(t.W, v)))
	return v
}

// EnumRange enumerates a fresh variable x (symbol sym) constrained only to
// lo..hi: every value is feasible, so the siblings are created without solver
// queries and without exclusion lists.
func (p *Path) EnumRange(x *Term, sym string, lo, hi uint64) uint64 {
	p.countDecision()
	tt := p.tt
	if p.pos < len(p.prefix) {
		d := p.prefix[p.pos]
		p.pos++
		if d.Kind != 1 {
			panic(engineAbort{"unsupported", "decision trace diverged (expected value)"})
		}
		p.trace = append(p.trace, d)
		p.addPC(tt.Eq(x, tt.Const(x.W, d.Val)))
		return d.Val
	}
	for v := hi; v > lo; v-- {
		var mc Model
		if p.model != nil {
			mc = make(Model, len(p.model)+1)
			for kk, vv := range p.model {
				mc[kk] = vv
			}
			mc[sym] = v
		}
		p.ex.push(&WorkItem{Prefix: cloneTrace(p.trace, Decision{Kind: 1, Val: v}), Model: mc})
		if v == 0 {
			break
		}
	}
	if p.model != nil {
		p.model[sym] = lo
		p.memo = nil
	}
	p.trace = append(p.trace, Decision{Kind: 1, Val: lo})
	p.addPC(tt.Eq(x, tt.Const(x.W, lo)))
	return lo
}

// Choose picks one of n alternatives (scheduler / explicit nondeterminism), exploring all.
func (p *Path) Choose(n int) int {
	if n <= 1 {
		return 0
	}
	p.countDecision()
	if p.pos < len(p.prefix) {
		d := p.prefix[p.pos]
		p.pos++
		if d.Kind != 2 {
			panic(engineAbort{"unsupported", "decision trace diverged (expected choice)"})
		}
		p.trace = append(p.trace, d)
		return int(d.Val)
	}
	for k := n - 1; k >= 1; k-- {
		var mc Model
		if p.model != nil {
			mc = make(Model, len(p.model))
			for kk, vv := range p.model {
				mc[kk] = vv
			}
		}
		p.ex.push(&WorkItem{Prefix: cloneTrace(p.trace, Decision{Kind: 2, Val: uint64(k)}), Model: mc})
	}
	p.trace = append(p.trace, Decision{Kind: 2, Val: 0})
	return 0
}

// ---------------------------------------------------------------------
// Nondeterministic inputs, tags, assertions.

func sanitize(s string) string {
	var sb strings.Builder
	for _, r := range s {
		if (r >= 'a' && r <= 'z') || (r >= 'A' && r <= 'Z') || (r >= '0' && r <= '9') || r == '_' {
			sb.WriteRune(r)
		} else {
			sb.WriteByte('_')
		}
	}
	return sb.String()
}

func (p *Path) NewNondet(name string, w uint8) *Term {
	sym := fmt.Sprintf("n%d_%s", len(p.nondets), sanitize(name))
	p.nondets = append(p.nondets, Nondet{Name: name, W: w, Sym: sym})
	p.w.solver.Declare(sym, w)
	if p.model != nil {
		if _, ok := p.model[sym]; !ok {
			// unconstrained fresh symbol: any value extends the model
			p.model[sym] = 0
		}
	}
	return p.tt.Var(w, sym)
}

func (p *Path) Assume(c *Term) {
	if c.IsTrue() {
		return
	}
	if c.IsFalse() {
		panic(engineAbort{"assume", "assumption is false"})
	}
	p.addPC(c)
	if p.model == nil {
		r, m := p.checkWith()
		switch r {
		case Sat:
			p.setModel(m)
		case Unsat:
			panic(engineAbort{"assume", "assumption unsatisfiable"})
		default:
			panic(engineAbort{"solver", "unknown after assume"})
		}
	}
}

func (p *Path) Tag(name string, t *Term) {
	if _, ok := p.tags[name]; !ok {
		p.tagOrd = append(p.tagOrd, name)
	}
	p.tags[name] = t
}

func (p *Path) snapshotValues(m Model) ([]Nondet, map[string]uint64) {
	vals := make([]Nondet, len(p.nondets))
	for i, n := range p.nondets {
		n.Val = m[n.Sym] & maskB(n.W)
		n.V = fmt.Sprintf("%d", n.Val)
		vals[i] = n
	}
	tags := make(map[string]uint64)
	memo := make(map[*Term]uint64)
	for name, t := range p.tags {
		tags[name] = t.Eval(m, memo)
	}
	return vals, tags
}

// knownFor returns the known findings applicable to an assertion id with their predicates.
func (p *Path) knownFor(id string) ([]KnownFinding, []*Term) {
	var kfs []KnownFinding
	var preds []*Term
	for _, k := range p.ex.Known {
		if k.Status == "fixed" {
			continue
		}
		if k.Assert != id {
			continue
		}
		if k.Harness != "" && k.Harness != p.ex.Harness {
			continue
		}
		var pred *Term
		if strings.TrimSpace(k.When) == "" {
			pred = p.tt.Bool(true)
		} else {
			t, err := p.parsePred(k.When)
			if err != nil {
				// predicate does not apply on this path (e.g. tag missing): treat as false
				pred = p.tt.Bool(false)
			} else {
				pred = t
			}
		}
		kfs = append(kfs, k)
		preds = append(preds, pred)
	}
	return kfs, preds
}

// Fail records violations of assertion id under the extra condition bad
// (pc ∧ bad is the violating region).  detail describes the failure.
func (p *Path) Fail(id string, bad *Term, detail string, where string) (violated bool, known *Term) {
	tt := p.tt
	if bad.IsFalse() {
		return false, nil
	}
	kfs, preds := p.knownFor(id)
	unlisted := bad
	known = tt.Bool(false)
	for _, pr := range preds {
		known = tt.Or(known, pr)
	}
	for i, pr := range preds {
		// witness for the known finding (one per finding per run is enough)
		p.res.mu.Lock()
		_, have := p.res.KnownHit[kfs[i].ID]
		p.res.mu.Unlock()
		if !have {
			r, m := p.checkWith(tt.And(bad, pr))
			if r == Sat {
				vals, tags := p.snapshotValues(m)
				v := &Violation{Harness: p.ex.Harness, ID: id, Detail: detail, Where: where, Values: vals, Tags: tags,
					Trace: append([]Decision{}, p.trace...), Known: kfs[i].ID}
				p.res.mu.Lock()
				if _, dup := p.res.KnownHit[kfs[i].ID]; !dup {
					p.res.KnownHit[kfs[i].ID] = v
				}
				p.res.mu.Unlock()
			}
		}
		unlisted = tt.And(unlisted, tt.Not(pr))
	}
	if unlisted.IsFalse() {
		return false, known
	}
	var m Model
	if len(preds) == 0 && bad.IsTrue() {
		p.ensureModel()
		m = p.model
	} else if p.model != nil && p.evalBool(unlisted) {
		m = p.model
	} else {
		r, mm := p.checkWith(unlisted)
		if r != Sat {
			return false, known
		}
		m = mm
	}
	vals, tags := p.snapshotValues(m)
	v := &Violation{Harness: p.ex.Harness, ID: id, Detail: detail, Where: where, Values: vals, Tags: tags,
		Trace: append([]Decision{}, p.trace...)}
	key := id + "|" + where
	p.res.mu.Lock()
	p.res.violSeen[key]++
	if p.res.violSeen[key] <= 3 {
		v.Key = fmt.Sprintf("%s#%d", key, p.res.violSeen[key])
		p.res.Violations = append(p.res.Violations, v)
	}
	p.res.mu.Unlock()
	return true, known
}

// Assert checks cond (bool term) on this path.
func (p *Path) Assert(cond *Term, id string, where string) {
	p.res.mu.Lock()
	p.res.Asserts[id]++
	p.res.mu.Unlock()
	if cond.IsTrue() {
		return
	}
	violated, known := p.Fail(id, p.tt.Not(cond), "assertion failed", where)
	if violated {
		// an unlisted violation is reported for this path; nothing more to learn from it
		panic(engineAbort{"assume", "path ends at a reported violation"})
	}
	if cond.IsFalse() {
		panic(engineAbort{"assume", "assertion failed on the whole path"})
	}
	if known == nil || known.IsFalse() {
		// the assertion holds on the whole path: pc already implies cond
		return
	}
	// continue outside the regions of the known findings (where the assertion holds)
	p.addPC(p.tt.Not(known))
	if p.model == nil {
		r, m := p.checkWith()
		switch r {
		case Sat:
			p.setModel(m)
		case Unsat:
			panic(engineAbort{"assume", "assertion failed on the whole path"})
		default:
			panic(engineAbort{"solver", "unknown after assert"})
		}
	}
}

func (p *Path) Cover(id string) {
	p.res.mu.Lock()
	p.res.Covers[id]++
	p.res.mu.Unlock()
}

// ---------------------------------------------------------------------

func sortedKeys(m map[string]int) []string {
	ks := make([]string, 0, len(m))
	for k := range m {
		ks = append(ks, k)
	}
	sort.Strings(ks)
	return ks
}
