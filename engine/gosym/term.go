package gosym

// Terms: hash-consed SMT expressions over Bool and fixed-width bit-vectors
// (width 1..64).  Every constructor folds constants and applies cheap local
// simplifications so that concrete computation never reaches the solver.

import (
	"fmt"
	"math/bits"
	"strings"
)

type Op uint8

const (
	OpConst Op = iota
	OpVar
	OpNot
	OpAnd
	OpOr
	OpEq
	OpIte
	OpUlt
	OpUle
	OpSlt
	OpSle
	OpAdd
	OpSub
	OpMul
	OpUdiv
	OpUrem
	OpSdiv
	OpSrem
	OpBand
	OpBor
	OpBxor
	OpBnot
	OpNeg
	OpShl
	OpLshr
	OpAshr
	OpConcat
	OpExtract
	OpZext
	OpSext
)

var opNames = [...]string{
	OpNot: "not", OpAnd: "and", OpOr: "or", OpEq: "=", OpIte: "ite",
	OpUlt: "bvult", OpUle: "bvule", OpSlt: "bvslt", OpSle: "bvsle",
	OpAdd: "bvadd", OpSub: "bvsub", OpMul: "bvmul", OpUdiv: "bvudiv", OpUrem: "bvurem",
	OpSdiv: "bvsdiv", OpSrem: "bvsrem", OpBand: "bvand", OpBor: "bvor", OpBxor: "bvxor",
	OpBnot: "bvnot", OpNeg: "bvneg", OpShl: "bvshl", OpLshr: "bvlshr", OpAshr: "bvashr",
	OpConcat: "concat",
}

// Term is an immutable hash-consed expression. W==0 means Bool.
type Term struct {
	Op   Op
	W    uint8
	A, B *Term
	C    *Term
	K    uint64 // constant value, or hi<<8|lo for extract
	Name string // for OpVar
	id   uint32
	Lo   uint64 // unsigned interval (bit-vector terms)
	Hi   uint64
}

type termKey struct {
	op      Op
	w       uint8
	a, b, c uint32
	k       uint64
	name    string
}

// TermTable is the per-path hash-consing table (not shared between workers).
type TermTable struct {
	m    map[termKey]*Term
	next uint32
	tt   *Term
	ff   *Term
	vr   map[string][2]uint64 // declared ranges of variables
}

func NewTermTable() *TermTable {
	t := &TermTable{m: make(map[termKey]*Term, 1024), next: 1}
	t.tt = t.mk(OpConst, 0, nil, nil, nil, 1, "")
	t.ff = t.mk(OpConst, 0, nil, nil, nil, 0, "")
	return t
}

func tid(t *Term) uint32 {
	if t == nil {
		return 0
	}
	return t.id
}

func (tt *TermTable) mk(op Op, w uint8, a, b, c *Term, k uint64, name string) *Term {
	key := termKey{op, w, tid(a), tid(b), tid(c), k, name}
	if t, ok := tt.m[key]; ok {
		return t
	}
	t := &Term{Op: op, W: w, A: a, B: b, C: c, K: k, Name: name, id: tt.next}
	tt.next++
	tt.m[key] = t
	tt.setRange(t)
	return t
}

// setRange computes a sound unsigned interval [Lo,Hi] for bit-vector terms
// (no wrap-around inside the interval).  It feeds cheap simplifications:
// comparisons decided by disjoint intervals and division/remainder of
// q*c+r by the constant c.
func (tt *TermTable) setRange(t *Term) {
	if t.W == 0 {
		return
	}
	m := mask(t.W)
	t.Lo, t.Hi = 0, m
	switch t.Op {
	case OpConst:
		t.Lo, t.Hi = t.K, t.K
	case OpVar:
		if r, ok := tt.vr[t.Name]; ok {
			t.Lo, t.Hi = r[0], r[1]
		}
	case OpAdd:
		hi, c1 := bits.Add64(t.A.Hi, t.B.Hi, 0)
		if c1 == 0 && hi <= m {
			t.Lo, t.Hi = t.A.Lo+t.B.Lo, hi
		} else if t.B.Op == OpConst && t.B.K > m>>1 {
			// x + (-d): a subtraction in disguise
			d := (m - t.B.K) + 1
			if t.A.Lo >= d {
				t.Lo, t.Hi = t.A.Lo-d, t.A.Hi-d
			}
		}
	case OpSub:
		if t.A.Lo >= t.B.Hi {
			t.Lo, t.Hi = t.A.Lo-t.B.Hi, t.A.Hi-t.B.Lo
		}
	case OpMul:
		h, l := bits.Mul64(t.A.Hi, t.B.Hi)
		if h == 0 && l <= m {
			t.Lo, t.Hi = t.A.Lo*t.B.Lo, l
		}
	case OpZext:
		t.Lo, t.Hi = t.A.Lo, t.A.Hi
	case OpNeg:
		if t.A.Lo >= 1 {
			t.Lo, t.Hi = (m-t.A.Hi)+1, (m-t.A.Lo)+1
		}
	case OpExtract:
		if t.K&0xff == 0 && t.A.Hi <= m {
			t.Lo, t.Hi = t.A.Lo, t.A.Hi
		}
	case OpIte:
		t.Lo, t.Hi = t.B.Lo, t.B.Hi
		if t.C.Lo < t.Lo {
			t.Lo = t.C.Lo
		}
		if t.C.Hi > t.Hi {
			t.Hi = t.C.Hi
		}
	case OpBand:
		t.Hi = t.A.Hi
		if t.B.Hi < t.Hi {
			t.Hi = t.B.Hi
		}
	case OpUrem:
		if t.B.Lo > 0 {
			t.Hi = t.B.Hi - 1
			if t.A.Hi < t.Hi {
				t.Hi = t.A.Hi
			}
		}
	case OpUdiv:
		if t.B.Lo > 0 {
			t.Lo, t.Hi = t.A.Lo/t.B.Hi, t.A.Hi/t.B.Lo
		}
	case OpLshr:
		if t.B.Op == OpConst && t.B.K < 64 {
			t.Lo, t.Hi = t.A.Lo>>t.B.K, t.A.Hi>>t.B.K
		}
	case OpSrem, OpSdiv:
		// non-negative operands behave as unsigned
		sm := m >> 1
		if t.A.Hi <= sm && t.B.Hi <= sm && t.B.Lo > 0 {
			if t.Op == OpSrem {
				t.Hi = t.B.Hi - 1
				if t.A.Hi < t.Hi {
					t.Hi = t.A.Hi
				}
			} else {
				t.Lo, t.Hi = t.A.Lo/t.B.Hi, t.A.Hi/t.B.Lo
			}
		}
	}
}

// VarRange creates a variable known to lie in the unsigned interval [lo,hi]
// (the caller is responsible for asserting that constraint).
func (tt *TermTable) VarRange(w uint8, name string, lo, hi uint64) *Term {
	if tt.vr == nil {
		tt.vr = make(map[string][2]uint64)
	}
	tt.vr[name] = [2]uint64{lo, hi}
	return tt.Var(w, name)
}

// basePlus views t as x + k (k a signed offset) when the interval of t shows
// that the addition did not wrap; any other term is itself plus 0.
func basePlus(t *Term) (*Term, int64, bool) {
	if t.Op == OpAdd && t.B.Op == OpConst {
		m := mask(t.W)
		k := sext64(t.B.K, t.W)
		x := t.A
		if k >= 0 {
			if hi, c := bits.Add64(x.Hi, uint64(k), 0); c == 0 && hi <= m {
				return x, k, true
			}
			return nil, 0, false
		}
		if x.Lo >= uint64(-k) {
			return x, k, true
		}
		return nil, 0, false
	}
	return t, 0, true
}

// divParts recognises x = q*c + r (no overflow, r < c) for the constant c.
func (tt *TermTable) divParts(x *Term, c uint64) (q, r *Term, ok bool) {
	if c == 0 {
		return nil, nil, false
	}
	if x.Hi < c {
		return tt.Const(x.W, 0), x, true
	}
	isMulC := func(t *Term) (*Term, bool) {
		if t.Op == OpMul && t.B.Op == OpConst && t.B.K == c && t.Hi != mask(t.W) {
			return t.A, true
		}
		if t.Op == OpMul && t.B.Op == OpConst && t.B.K == c {
			// exact full-range product cannot be told apart from overflow
			h, _ := bits.Mul64(t.A.Hi, c)
			if h == 0 && t.A.Hi*c <= mask(t.W) {
				return t.A, true
			}
		}
		return nil, false
	}
	if qq, ok := isMulC(x); ok {
		return qq, tt.Const(x.W, 0), true
	}
	if x.Op == OpAdd {
		// sum must not overflow: its interval was computed without wrap iff Hi < mask or operands small
		hi, c1 := bits.Add64(x.A.Hi, x.B.Hi, 0)
		if c1 == 0 && hi <= mask(x.W) {
			if qq, ok := isMulC(x.A); ok && x.B.Hi < c {
				return qq, x.B, true
			}
			if qq, ok := isMulC(x.A); ok && x.B.Op == OpConst {
				// q*c + K with K >= c:  (q + K/c)*c + K%c
				return tt.Bin(OpAdd, qq, tt.Const(x.W, x.B.K/c)), tt.Const(x.W, x.B.K%c), true
			}
			if x.B.Op == OpConst {
				// t + K with t + K%c < c:  quotient K/c, remainder t + K%c
				if h2, c2 := bits.Add64(x.A.Hi, x.B.K%c, 0); c2 == 0 && h2 < c {
					return tt.Const(x.W, x.B.K/c), tt.Bin(OpAdd, x.A, tt.Const(x.W, x.B.K%c)), true
				}
			}
		}
	}
	if x.Op == OpAdd && x.B.Op == OpConst && x.B.K > mask(x.W)>>1 {
		// q*c - d  =  (q-e)*c + (e*c-d)  with e = ceil(d/c), valid when q >= e
		d := (mask(x.W) - x.B.K) + 1
		if qq, ok := isMulC(x.A); ok && d < 1<<32 && c < 1<<31 {
			e := (d + c - 1) / c
			if qq.Lo >= e {
				return tt.Bin(OpSub, qq, tt.Const(x.W, e)), tt.Const(x.W, e*c-d), true
			}
		}
	}
	if x.Op == OpAdd {
		hi, c1 := bits.Add64(x.A.Hi, x.B.Hi, 0)
		if c1 != 0 || hi > mask(x.W) {
			return nil, nil, false
		}
		if qq, ok := isMulC(x.B); ok && x.A.Hi < c {
			return qq, x.A, true
		}
	}
	return nil, nil, false
}

func mask(w uint8) uint64 {
	if w >= 64 {
		return ^uint64(0)
	}
	return (uint64(1) << w) - 1
}

func sext64(v uint64, w uint8) int64 {
	if w >= 64 {
		return int64(v)
	}
	sh := 64 - uint(w)
	return int64(v<<sh) >> sh
}

func (t *Term) IsConst() bool { return t.Op == OpConst }
func (t *Term) IsTrue() bool  { return t.Op == OpConst && t.W == 0 && t.K == 1 }
func (t *Term) IsFalse() bool { return t.Op == OpConst && t.W == 0 && t.K == 0 }

func (tt *TermTable) Bool(b bool) *Term {
	if b {
		return tt.tt
	}
	return tt.ff
}

func (tt *TermTable) Const(w uint8, v uint64) *Term {
	if w == 0 {
		return tt.Bool(v != 0)
	}
	return tt.mk(OpConst, w, nil, nil, nil, v&mask(w), "")
}

func (tt *TermTable) Var(w uint8, name string) *Term {
	return tt.mk(OpVar, w, nil, nil, nil, 0, name)
}

func (tt *TermTable) Not(a *Term) *Term {
	if a.W != 0 {
		panic("Not on non-bool")
	}
	if a.Op == OpConst {
		return tt.Bool(a.K == 0)
	}
	if a.Op == OpNot {
		return a.A
	}
	return tt.mk(OpNot, 0, a, nil, nil, 0, "")
}

func (tt *TermTable) And(a, b *Term) *Term {
	if a.IsFalse() || b.IsFalse() {
		return tt.ff
	}
	if a.IsTrue() {
		return b
	}
	if b.IsTrue() {
		return a
	}
	if a == b {
		return a
	}
	if (a.Op == OpNot && a.A == b) || (b.Op == OpNot && b.A == a) {
		return tt.ff
	}
	if a.id > b.id {
		a, b = b, a
	}
	return tt.mk(OpAnd, 0, a, b, nil, 0, "")
}

func (tt *TermTable) Or(a, b *Term) *Term {
	if a.IsTrue() || b.IsTrue() {
		return tt.tt
	}
	if a.IsFalse() {
		return b
	}
	if b.IsFalse() {
		return a
	}
	if a == b {
		return a
	}
	if (a.Op == OpNot && a.A == b) || (b.Op == OpNot && b.A == a) {
		return tt.tt
	}
	if a.id > b.id {
		a, b = b, a
	}
	return tt.mk(OpOr, 0, a, b, nil, 0, "")
}

func (tt *TermTable) Implies(a, b *Term) *Term { return tt.Or(tt.Not(a), b) }

func (tt *TermTable) Eq(a, b *Term) *Term {
	if a.W != b.W {
		panic(fmt.Sprintf("Eq width mismatch %d vs %d", a.W, b.W))
	}
	if a == b {
		return tt.tt
	}
	if a.Op == OpConst && b.Op == OpConst {
		return tt.Bool(a.K == b.K)
	}
	if a.W != 0 && (a.Hi < b.Lo || b.Hi < a.Lo) {
		return tt.ff
	}
	if a.W != 0 {
		// x+k1 == x+k2  <=>  k1 == k2  (valid modulo 2^w)
		xa, ka := a, uint64(0)
		if a.Op == OpAdd && a.B.Op == OpConst {
			xa, ka = a.A, a.B.K
		}
		xb, kb := b, uint64(0)
		if b.Op == OpAdd && b.B.Op == OpConst {
			xb, kb = b.A, b.B.K
		}
		if xa == xb && (xa != a || xb != b) {
			return tt.Bool(ka == kb)
		}
	}
	if a.W == 0 {
		if a.Op == OpConst {
			a, b = b, a
		}
		if b.Op == OpConst {
			if b.K == 1 {
				return a
			}
			return tt.Not(a)
		}
	}
	// put the constant on the right
	if a.Op == OpConst {
		a, b = b, a
	}
	if b.Op == OpConst {
		switch a.Op {
		case OpIte:
			// (ite c k1 k2) == k  with constant arms
			if a.B.Op == OpConst && a.C.Op == OpConst {
				e1 := a.B.K == b.K
				e2 := a.C.K == b.K
				switch {
				case e1 && e2:
					return tt.tt
				case e1:
					return a.A
				case e2:
					return tt.Not(a.A)
				default:
					return tt.ff
				}
			}
		case OpZext:
			if b.K > mask(a.A.W) {
				return tt.ff
			}
			return tt.Eq(a.A, tt.Const(a.A.W, b.K))
		case OpBxor:
			if a.B.Op == OpConst {
				return tt.Eq(a.A, tt.Const(a.W, b.K^a.B.K))
			}
		case OpAdd:
			if a.B.Op == OpConst {
				return tt.Eq(a.A, tt.Const(a.W, b.K-a.B.K))
			}
		}
	} else if a.id > b.id {
		a, b = b, a
	}
	return tt.mk(OpEq, 0, a, b, nil, 0, "")
}

func (tt *TermTable) Ite(c, a, b *Term) *Term {
	if c.W != 0 || a.W != b.W {
		panic("Ite sort mismatch")
	}
	if c.IsTrue() {
		return a
	}
	if c.IsFalse() {
		return b
	}
	if a == b {
		return a
	}
	if a.W == 0 {
		if a.IsTrue() && b.IsFalse() {
			return c
		}
		if a.IsFalse() && b.IsTrue() {
			return tt.Not(c)
		}
		if a.IsTrue() {
			return tt.Or(c, b)
		}
		if a.IsFalse() {
			return tt.And(tt.Not(c), b)
		}
		if b.IsTrue() {
			return tt.Or(tt.Not(c), a)
		}
		if b.IsFalse() {
			return tt.And(c, a)
		}
	}
	if c.Op == OpNot {
		return tt.mk(OpIte, a.W, c.A, b, a, 0, "")
	}
	return tt.mk(OpIte, a.W, c, a, b, 0, "")
}

// constIte: t is ite(c, k1, k2) with constant arms.
func constIte(t *Term) bool {
	return t.Op == OpIte && t.B.Op == OpConst && t.C.Op == OpConst
}

func (tt *TermTable) cmp(op Op, a, b *Term) *Term {
	if a.W != b.W || a.W == 0 {
		panic("cmp width mismatch")
	}
	// comparisons distribute over an ite with constant arms
	if constIte(a) && b.Op == OpConst {
		return tt.Ite(a.A, tt.cmp(op, a.B, b), tt.cmp(op, a.C, b))
	}
	if constIte(b) && a.Op == OpConst {
		return tt.Ite(b.A, tt.cmp(op, a, b.B), tt.cmp(op, a, b.C))
	}
	if a.Op == OpConst && b.Op == OpConst {
		var r bool
		switch op {
		case OpUlt:
			r = a.K < b.K
		case OpUle:
			r = a.K <= b.K
		case OpSlt:
			r = sext64(a.K, a.W) < sext64(b.K, b.W)
		case OpSle:
			r = sext64(a.K, a.W) <= sext64(b.K, b.W)
		}
		return tt.Bool(r)
	}
	if a == b {
		return tt.Bool(op == OpUle || op == OpSle)
	}
	{
		// x+k1 versus x+k2 (no wrap-around by the intervals): compare the offsets
		sm := mask(a.W) >> 1
		xa, ka, oka := basePlus(a)
		xb, kb, okb := basePlus(b)
		if oka && okb && xa == xb && (op == OpUlt || op == OpUle || (a.Hi <= sm && b.Hi <= sm)) {
			switch op {
			case OpUlt, OpSlt:
				return tt.Bool(ka < kb)
			default:
				return tt.Bool(ka <= kb)
			}
		}
	}
	{
		// decide by intervals (signed comparisons only when both sides are non-negative)
		sm := mask(a.W) >> 1
		unsignedOK := op == OpUlt || op == OpUle || (a.Hi <= sm && b.Hi <= sm)
		if unsignedOK {
			switch op {
			case OpUlt, OpSlt:
				if a.Hi < b.Lo {
					return tt.tt
				}
				if a.Lo >= b.Hi {
					return tt.ff
				}
			case OpUle, OpSle:
				if a.Hi <= b.Lo {
					return tt.tt
				}
				if a.Lo > b.Hi {
					return tt.ff
				}
			}
		}
	}
	switch op {
	case OpUlt:
		if b.Op == OpConst && b.K == 0 {
			return tt.ff
		}
		if a.Op == OpConst && a.K == mask(a.W) {
			return tt.ff
		}
		// zext(x) < const beyond range
		if a.Op == OpZext && b.Op == OpConst && b.K > mask(a.A.W) {
			return tt.tt
		}
	case OpUle:
		if a.Op == OpConst && a.K == 0 {
			return tt.tt
		}
		if b.Op == OpConst && b.K == mask(b.W) {
			return tt.tt
		}
		if a.Op == OpZext && b.Op == OpConst && b.K >= mask(a.A.W) {
			return tt.tt
		}
	case OpSlt:
		if a.Op == OpZext && b.Op == OpConst && a.A.W < a.W {
			// zext value is in [0, 2^k)
			bv := sext64(b.K, b.W)
			if bv <= 0 {
				return tt.ff
			}
			if uint64(bv) > mask(a.A.W) {
				return tt.tt
			}
		}
		if b.Op == OpZext && a.Op == OpConst && b.A.W < b.W {
			av := sext64(a.K, a.W)
			if av < 0 {
				return tt.tt
			}
			if uint64(av) >= mask(b.A.W) {
				return tt.ff
			}
		}
	case OpSle:
		if a.Op == OpZext && b.Op == OpConst && a.A.W < a.W {
			bv := sext64(b.K, b.W)
			if bv < 0 {
				return tt.ff
			}
			if uint64(bv) >= mask(a.A.W) {
				return tt.tt
			}
		}
		if b.Op == OpZext && a.Op == OpConst && b.A.W < b.W {
			av := sext64(a.K, a.W)
			if av <= 0 {
				return tt.tt
			}
			if uint64(av) > mask(b.A.W) {
				return tt.ff
			}
		}
	}
	return tt.mk(op, 0, a, b, nil, 0, "")
}

func (tt *TermTable) Ult(a, b *Term) *Term { return tt.cmp(OpUlt, a, b) }
func (tt *TermTable) Ule(a, b *Term) *Term { return tt.cmp(OpUle, a, b) }
func (tt *TermTable) Slt(a, b *Term) *Term { return tt.cmp(OpSlt, a, b) }
func (tt *TermTable) Sle(a, b *Term) *Term { return tt.cmp(OpSle, a, b) }

func foldBin(op Op, w uint8, x, y uint64) (uint64, bool) {
	m := mask(w)
	switch op {
	case OpAdd:
		return (x + y) & m, true
	case OpSub:
		return (x - y) & m, true
	case OpMul:
		return (x * y) & m, true
	case OpUdiv:
		if y == 0 {
			return m, true
		}
		return x / y, true
	case OpUrem:
		if y == 0 {
			return x, true
		}
		return x % y, true
	case OpSdiv:
		sx, sy := sext64(x, w), sext64(y, w)
		if sy == 0 {
			if sx < 0 {
				return 1, true
			}
			return m, true
		}
		if sy == -1 {
			return uint64(-sx) & m, true
		}
		return uint64(sx/sy) & m, true
	case OpSrem:
		sx, sy := sext64(x, w), sext64(y, w)
		if sy == 0 {
			return x, true
		}
		if sy == -1 {
			return 0, true
		}
		return uint64(sx%sy) & m, true
	case OpBand:
		return x & y, true
	case OpBor:
		return x | y, true
	case OpBxor:
		return x ^ y, true
	case OpShl:
		if y >= uint64(w) {
			return 0, true
		}
		return (x << y) & m, true
	case OpLshr:
		if y >= uint64(w) {
			return 0, true
		}
		return x >> y, true
	case OpAshr:
		sx := sext64(x, w)
		if y >= uint64(w) {
			if sx < 0 {
				return m, true
			}
			return 0, true
		}
		return uint64(sx>>y) & m, true
	}
	return 0, false
}

func (tt *TermTable) Bin(op Op, a, b *Term) *Term {
	if a.W != b.W || a.W == 0 {
		panic(fmt.Sprintf("Bin %v width mismatch %d %d", opNames[op], a.W, b.W))
	}
	w := a.W
	if a.Op == OpConst && b.Op == OpConst {
		if v, ok := foldBin(op, w, a.K, b.K); ok {
			return tt.Const(w, v)
		}
	}
	// arithmetic with a constant distributes over an ite with constant arms
	divLike := op == OpUdiv || op == OpUrem || op == OpSdiv || op == OpSrem
	if constIte(a) && b.Op == OpConst && !(divLike && b.K == 0) {
		return tt.Ite(a.A, tt.Bin(op, a.B, b), tt.Bin(op, a.C, b))
	}
	if constIte(b) && a.Op == OpConst && !(divLike && (b.B.K == 0 || b.C.K == 0)) {
		return tt.Ite(b.A, tt.Bin(op, a, b.B), tt.Bin(op, a, b.C))
	}
	{
		// signed operations on provably non-negative operands are the unsigned ones
		sm := mask(w) >> 1
		if a.Hi <= sm && b.Hi <= sm {
			switch op {
			case OpSdiv:
				op = OpUdiv
			case OpSrem:
				op = OpUrem
			}
		}
		if op == OpAshr {
			if a.Hi <= sm {
				op = OpLshr
			} else if a.Lo > sm && b.Op == OpConst && b.K >= uint64(w)-1 {
				return tt.Const(w, mask(w)) // negative >> (w-1)
			}
		}
		if op == OpLshr && b.Op == OpConst && b.K < 64 && a.Hi>>b.K == 0 {
			return tt.Const(w, 0)
		}
		if op == OpBxor && b.Op == OpConst && b.K == mask(w) {
			return tt.Bnot(a)
		}
		if op == OpBxor && a.Op == OpConst && a.K == mask(w) {
			return tt.Bnot(b)
		}
		if op == OpBand && b.Op == OpConst && b.K&(b.K+1) == 0 && a.Hi <= b.K {
			return a // masking bits that are already clear
		}
		if op == OpBand && b.Op == OpConst && b.K != 0 && b.K&(b.K+1) == 0 && b.K != mask(w) {
			// x & (2^k - 1) with determined low bits
			k := uint8(bits.Len64(b.K))
			if v, ok := lowConst(a, k); ok {
				return tt.Const(w, v)
			}
		}
	}
	if b.Op == OpConst && b.K != 0 {
		sm := mask(w) >> 1
		switch op {
		case OpUdiv, OpUrem, OpSdiv, OpSrem:
			if op == OpUdiv || op == OpUrem || (a.Hi <= sm && b.K <= sm) {
				if q, r, ok := tt.divParts(a, b.K); ok {
					if op == OpUdiv || op == OpSdiv {
						return q
					}
					return r
				}
			}
		}
	}
	switch op {
	case OpAdd, OpMul, OpBand, OpBor, OpBxor:
		// commutative: constant to the right
		if a.Op == OpConst {
			a, b = b, a
		}
	}
	if b.Op == OpConst {
		k := b.K
		switch op {
		case OpAdd, OpSub, OpBor, OpBxor, OpShl, OpLshr, OpAshr:
			if k == 0 {
				return a
			}
		case OpMul:
			if k == 0 {
				return b
			}
			if k == 1 {
				return a
			}
		case OpUdiv, OpSdiv:
			if k == 1 {
				return a
			}
		case OpBand:
			if k == 0 {
				return b
			}
			if k == mask(w) {
				return a
			}
		}
		if op == OpBor && k == mask(w) {
			return b
		}
		// (x + k1) + k2
		if op == OpAdd && a.Op == OpAdd && a.B.Op == OpConst {
			return tt.Bin(OpAdd, a.A, tt.Const(w, a.B.K+k))
		}
		if op == OpSub {
			return tt.Bin(OpAdd, a, tt.Const(w, -k))
		}
		if op == OpBxor && a.Op == OpBxor && a.B.Op == OpConst {
			return tt.Bin(OpBxor, a.A, tt.Const(w, a.B.K^k))
		}
		if (op == OpShl || op == OpLshr) && k >= uint64(w) {
			return tt.Const(w, 0)
		}
		// (zext x) & k  where k covers x
		if op == OpBand && a.Op == OpZext && k&mask(a.A.W) == mask(a.A.W) {
			return a
		}
	}
	if a == b {
		switch op {
		case OpSub, OpBxor:
			return tt.Const(w, 0)
		case OpBand, OpBor:
			return a
		}
	}
	if a.Op == OpConst && a.K == 0 {
		switch op {
		case OpShl, OpLshr, OpAshr:
			return a
		}
	}
	return tt.mk(op, w, a, b, nil, 0, "")
}

func (tt *TermTable) Bnot(a *Term) *Term {
	if a.Op == OpConst {
		return tt.Const(a.W, ^a.K)
	}
	if a.Op == OpBnot {
		return a.A
	}
	if a.Op == OpNeg {
		// ^(-x) = x - 1
		return tt.Bin(OpAdd, a.A, tt.Const(a.W, mask(a.W)))
	}
	return tt.mk(OpBnot, a.W, a, nil, nil, 0, "")
}

func (tt *TermTable) Neg(a *Term) *Term {
	if a.Op == OpConst {
		return tt.Const(a.W, -a.K)
	}
	if a.Op == OpNeg {
		return a.A
	}
	if a.Op == OpBnot {
		// -(^x) = x + 1
		return tt.Bin(OpAdd, a.A, tt.Const(a.W, 1))
	}
	return tt.mk(OpNeg, a.W, a, nil, nil, 0, "")
}

// lowConst reports the value of the low k bits of t when they are determined
// (e.g. (q*1024 + 5) mod 2^10 = 5): arithmetic modulo 2^k needs no interval.
func lowConst(t *Term, k uint8) (uint64, bool) {
	m := mask(k)
	switch t.Op {
	case OpConst:
		return t.K & m, true
	case OpAdd, OpSub:
		x, ok1 := lowConst(t.A, k)
		y, ok2 := lowConst(t.B, k)
		if ok1 && ok2 {
			if t.Op == OpAdd {
				return (x + y) & m, true
			}
			return (x - y) & m, true
		}
	case OpMul:
		if t.B.Op == OpConst && t.B.K&m == 0 {
			return 0, true
		}
		x, ok1 := lowConst(t.A, k)
		y, ok2 := lowConst(t.B, k)
		if ok1 && ok2 {
			return (x * y) & m, true
		}
	case OpShl:
		if t.B.Op == OpConst && t.B.K >= uint64(k) {
			return 0, true
		}
	case OpZext, OpSext:
		if k <= t.A.W {
			return lowConst(t.A, k)
		}
	case OpNeg:
		if x, ok := lowConst(t.A, k); ok {
			return (-x) & m, true
		}
	}
	return 0, false
}

func (tt *TermTable) Extract(a *Term, hi, lo uint8) *Term {
	if hi < lo || hi >= a.W {
		panic("bad extract")
	}
	if lo == 0 && hi == a.W-1 {
		return a
	}
	w := hi - lo + 1
	switch a.Op {
	case OpConst:
		return tt.Const(w, a.K>>lo)
	case OpZext:
		if hi < a.A.W {
			return tt.Extract(a.A, hi, lo)
		}
		if lo >= a.A.W {
			return tt.Const(w, 0)
		}
		if lo == 0 {
			return tt.Zext(a.A, w)
		}
	case OpSext:
		if hi < a.A.W {
			return tt.Extract(a.A, hi, lo)
		}
		if lo == 0 {
			return tt.Sext(a.A, w)
		}
	case OpExtract:
		l0 := uint8(a.K & 0xff)
		return tt.Extract(a.A, hi+l0, lo+l0)
	case OpConcat:
		if hi < a.B.W {
			return tt.Extract(a.B, hi, lo)
		}
		if lo >= a.B.W {
			return tt.Extract(a.A, hi-a.B.W, lo-a.B.W)
		}
	case OpBand, OpBor, OpBxor:
		if lo == 0 || a.B.Op == OpConst {
			return tt.Bin(a.Op, tt.Extract(a.A, hi, lo), tt.Extract(a.B, hi, lo))
		}
	case OpAdd, OpSub, OpMul:
		if lo == 0 {
			return tt.Bin(a.Op, tt.Extract(a.A, hi, 0), tt.Extract(a.B, hi, 0))
		}
	case OpIte:
		if a.B.Op == OpConst || a.C.Op == OpConst {
			return tt.Ite(a.A, tt.Extract(a.B, hi, lo), tt.Extract(a.C, hi, lo))
		}
	case OpShl:
		// (x << k)[hi:lo] with constant k multiple of lo
		if a.B.Op == OpConst && a.B.K <= uint64(lo) {
			k := uint8(a.B.K)
			return tt.Extract(a.A, hi-k, lo-k)
		}
	case OpLshr:
		if a.B.Op == OpConst && uint64(hi)+a.B.K < uint64(a.W) {
			k := uint8(a.B.K)
			return tt.Extract(a.A, hi+k, lo+k)
		}
	}
	return tt.mk(OpExtract, w, a, nil, nil, uint64(hi)<<8|uint64(lo), "")
}

func (tt *TermTable) Zext(a *Term, w uint8) *Term {
	if w == a.W {
		return a
	}
	if w < a.W {
		return tt.Extract(a, w-1, 0)
	}
	if a.Op == OpConst {
		return tt.Const(w, a.K)
	}
	if a.Op == OpZext {
		return tt.Zext(a.A, w)
	}
	if constIte(a) {
		return tt.Ite(a.A, tt.Zext(a.B, w), tt.Zext(a.C, w))
	}
	// zext(x[k-1:0]) where x already fits k bits: a truncation that loses nothing
	if a.Op == OpExtract && a.K&0xff == 0 && a.A.Hi <= mask(a.W) {
		if w <= a.A.W {
			return tt.Extract(a.A, w-1, 0)
		}
		return tt.Zext(a.A, w)
	}
	// push the extension through additions / multiplications that provably do not
	// wrap at the narrow width (keeps q*c+r visible to the division rules)
	switch a.Op {
	case OpAdd:
		if hi, c := bits.Add64(a.A.Hi, a.B.Hi, 0); c == 0 && hi <= mask(a.W) {
			return tt.Bin(OpAdd, tt.Zext(a.A, w), tt.Zext(a.B, w))
		}
	case OpMul:
		if h, l := bits.Mul64(a.A.Hi, a.B.Hi); h == 0 && l <= mask(a.W) {
			return tt.Bin(OpMul, tt.Zext(a.A, w), tt.Zext(a.B, w))
		}
	}
	return tt.mk(OpZext, w, a, nil, nil, 0, "")
}

func (tt *TermTable) Sext(a *Term, w uint8) *Term {
	if w == a.W {
		return a
	}
	if w < a.W {
		return tt.Extract(a, w-1, 0)
	}
	if a.Op == OpConst {
		return tt.Const(w, uint64(sext64(a.K, a.W)))
	}
	if a.Op == OpZext {
		// zero extension leaves the sign bit clear
		return tt.Zext(a.A, w)
	}
	if a.Op == OpSext {
		return tt.Sext(a.A, w)
	}
	return tt.mk(OpSext, w, a, nil, nil, 0, "")
}

func (tt *TermTable) Concat(hi, lo *Term) *Term {
	w := hi.W + lo.W
	if w > 64 {
		panic("concat too wide")
	}
	if hi.Op == OpConst && lo.Op == OpConst {
		return tt.Const(w, hi.K<<lo.W|lo.K)
	}
	if hi.Op == OpConst && hi.K == 0 {
		return tt.Zext(lo, w)
	}
	return tt.mk(OpConcat, w, hi, lo, nil, 0, "")
}

// ---------------------------------------------------------------------
// Evaluation under an assignment (missing variables read as 0).

type Model map[string]uint64

func (t *Term) Eval(m Model, memo map[*Term]uint64) uint64 {
	if t.Op == OpConst {
		return t.K
	}
	if v, ok := memo[t]; ok {
		return v
	}
	var r uint64
	switch t.Op {
	case OpVar:
		r = m[t.Name] & maskB(t.W)
	case OpNot:
		r = 1 - t.A.Eval(m, memo)
	case OpAnd:
		if t.A.Eval(m, memo) == 1 && t.B.Eval(m, memo) == 1 {
			r = 1
		}
	case OpOr:
		if t.A.Eval(m, memo) == 1 || t.B.Eval(m, memo) == 1 {
			r = 1
		}
	case OpEq:
		if t.A.Eval(m, memo) == t.B.Eval(m, memo) {
			r = 1
		}
	case OpIte:
		if t.A.Eval(m, memo) == 1 {
			r = t.B.Eval(m, memo)
		} else {
			r = t.C.Eval(m, memo)
		}
	case OpUlt, OpUle, OpSlt, OpSle:
		x, y := t.A.Eval(m, memo), t.B.Eval(m, memo)
		w := t.A.W
		var b bool
		switch t.Op {
		case OpUlt:
			b = x < y
		case OpUle:
			b = x <= y
		case OpSlt:
			b = sext64(x, w) < sext64(y, w)
		case OpSle:
			b = sext64(x, w) <= sext64(y, w)
		}
		if b {
			r = 1
		}
	case OpBnot:
		r = ^t.A.Eval(m, memo) & mask(t.W)
	case OpNeg:
		r = -t.A.Eval(m, memo) & mask(t.W)
	case OpExtract:
		lo := uint8(t.K & 0xff)
		r = (t.A.Eval(m, memo) >> lo) & mask(t.W)
	case OpZext:
		r = t.A.Eval(m, memo)
	case OpSext:
		r = uint64(sext64(t.A.Eval(m, memo), t.A.W)) & mask(t.W)
	case OpConcat:
		r = t.A.Eval(m, memo)<<t.B.W | t.B.Eval(m, memo)
	default:
		v, ok := foldBin(t.Op, t.W, t.A.Eval(m, memo), t.B.Eval(m, memo))
		if !ok {
			panic("eval: unknown op")
		}
		r = v
	}
	memo[t] = r
	return r
}

func maskB(w uint8) uint64 {
	if w == 0 {
		return 1
	}
	return mask(w)
}

// ---------------------------------------------------------------------
// SMT-LIB2 printing.

func sortStr(w uint8) string {
	if w == 0 {
		return "Bool"
	}
	return fmt.Sprintf("(_ BitVec %d)", w)
}

func constStr(w uint8, k uint64) string {
	if w == 0 {
		if k != 0 {
			return "true"
		}
		return "false"
	}
	if w%4 == 0 {
		return fmt.Sprintf("#x%0*x", int(w/4), k)
	}
	return fmt.Sprintf("#b%0*b", int(w), k)
}

// smtWriter emits define-funs for shared interior nodes so that DAGs stay DAGs.
type smtWriter struct {
	defined map[*Term]string // term -> symbol (for defined nodes)
	sb      *strings.Builder // pending definitions
	n       int
	divs    map[interface{}][2]string
}

func newSMTWriter() *smtWriter {
	return &smtWriter{defined: make(map[*Term]string), sb: &strings.Builder{}}
}

// ref returns an SMT expression referring to t, emitting definitions of
// interior nodes into w.sb as needed.
func (w *smtWriter) ref(t *Term) string {
	switch t.Op {
	case OpConst:
		return constStr(t.W, t.K)
	case OpVar:
		return t.Name
	}
	if s, ok := w.defined[t]; ok {
		return s
	}
	var e string
	switch t.Op {
	case OpNot, OpBnot, OpNeg:
		e = "(" + opNames[t.Op] + " " + w.ref(t.A) + ")"
	case OpIte:
		e = "(ite " + w.ref(t.A) + " " + w.ref(t.B) + " " + w.ref(t.C) + ")"
	case OpExtract:
		e = fmt.Sprintf("((_ extract %d %d) %s)", t.K>>8, t.K&0xff, w.ref(t.A))
	case OpZext:
		e = fmt.Sprintf("((_ zero_extend %d) %s)", t.W-t.A.W, w.ref(t.A))
	case OpSext:
		e = fmt.Sprintf("((_ sign_extend %d) %s)", t.W-t.A.W, w.ref(t.A))
	case OpUdiv, OpUrem, OpSdiv, OpSrem:
		if name, ok := w.divByConst(t); ok {
			w.defined[t] = name
			return name
		}
		e = "(" + opNames[t.Op] + " " + w.ref(t.A) + " " + w.ref(t.B) + ")"
	default:
		e = "(" + opNames[t.Op] + " " + w.ref(t.A) + " " + w.ref(t.B) + ")"
	}
	w.n++
	name := fmt.Sprintf("t!%d", w.n)
	fmt.Fprintf(w.sb, "(define-fun %s () %s %s)\n", name, sortStr(t.W), e)
	w.defined[t] = name
	return name
}

// divByConst encodes x / c and x % c for a constant divisor c (c > 0 as a
// signed number when the operation is signed) without a divider circuit:
// fresh constants q, r with  |x| = q*c + r,  r < c,  q <= MAX/c  are declared
// and the defining constraints asserted at the current (path) level.  The
// constants are functionally determined by x, so asserting the definition
// does not restrict x.  Multiplication by a constant bit-blasts to a few
// shift-adds, where the 64-bit divider circuit stalls all three back ends.
func (w *smtWriter) divByConst(t *Term) (string, bool) {
	if t.B.Op != OpConst || t.B.K == 0 {
		return "", false
	}
	c := t.B.K
	W := t.W
	signed := t.Op == OpSdiv || t.Op == OpSrem
	if signed && sext64(c, W) <= 0 {
		return "", false
	}
	type dk struct {
		x      *Term
		c      uint64
		signed bool
	}
	if w.divs == nil {
		w.divs = make(map[interface{}][2]string)
	}
	key := dk{t.A, c, signed}
	names, ok := w.divs[key]
	if !ok {
		x := w.ref(t.A)
		w.n++
		q := fmt.Sprintf("dq!%d", w.n)
		r := fmt.Sprintf("dr!%d", w.n)
		srt := sortStr(W)
		cs := constStr(W, c)
		fmt.Fprintf(w.sb, "(declare-const %s %s)\n(declare-const %s %s)\n", q, srt, r, srt)
		ax := x
		if signed {
			ax = fmt.Sprintf("(ite (bvslt %s %s) (bvneg %s) %s)", x, constStr(W, 0), x, x)
		}
		maxq := mask(W) / c
		if !signed || t.A.Hi <= mask(W)>>1 {
			// the operand's known interval bounds the quotient (kills the high bits early)
			if t.A.Hi/c < maxq {
				maxq = t.A.Hi / c
			}
		}
		// q <= MAX/c rules out overflow of q*c; r <= |x| rules out wrap-around of q*c + r
		fmt.Fprintf(w.sb, "(assert (= %s (bvadd (bvmul %s %s) %s)))\n(assert (bvult %s %s))\n(assert (bvule %s %s))\n(assert (bvule %s %s))\n",
			ax, q, cs, r, r, cs, q, constStr(W, maxq), r, ax)
		if signed {
			w.n++
			sq := fmt.Sprintf("dq!%d", w.n)
			sr := fmt.Sprintf("dr!%d", w.n)
			fmt.Fprintf(w.sb, "(define-fun %s () %s (ite (bvslt %s %s) (bvneg %s) %s))\n", sq, srt, x, constStr(W, 0), q, q)
			fmt.Fprintf(w.sb, "(define-fun %s () %s (ite (bvslt %s %s) (bvneg %s) %s))\n", sr, srt, x, constStr(W, 0), r, r)
			q, r = sq, sr
		}
		names = [2]string{q, r}
		w.divs[key] = names
	}
	if t.Op == OpUdiv || t.Op == OpSdiv {
		return names[0], true
	}
	return names[1], true
}

// String renders a term inline for diagnostics (may be exponential on DAGs; cut at depth).
func (t *Term) String() string { return t.str(6) }

func (t *Term) str(d int) string {
	switch t.Op {
	case OpConst:
		if t.W == 0 {
			return constStr(0, t.K)
		}
		return fmt.Sprintf("%d:%d", t.K, t.W)
	case OpVar:
		return t.Name
	}
	if d == 0 {
		return "…"
	}
	switch t.Op {
	case OpNot, OpBnot, OpNeg:
		return "(" + opNames[t.Op] + " " + t.A.str(d-1) + ")"
	case OpIte:
		return "(ite " + t.A.str(d-1) + " " + t.B.str(d-1) + " " + t.C.str(d-1) + ")"
	case OpExtract:
		return fmt.Sprintf("(extract[%d:%d] %s)", t.K>>8, t.K&0xff, t.A.str(d-1))
	case OpZext:
		return fmt.Sprintf("(zext%d %s)", t.W, t.A.str(d-1))
	case OpSext:
		return fmt.Sprintf("(sext%d %s)", t.W, t.A.str(d-1))
	}
	return "(" + opNames[t.Op] + " " + t.A.str(d-1) + " " + t.B.str(d-1) + ")"
}

var _ = bits.Len64
