package gosym

// Symbolic extensions of the interpreter's operators.

import (
	"fmt"
	"go/token"
	"go/types"
	"unicode/utf8"

	"golang.org/x/tools/go/ssa"
)

// sstr is a string with at least one symbolic byte.  Its length is concrete;
// elements are uint8 or *Term of width 8.
type sstr []value

func basicKind(t types.Type) types.BasicKind {
	if b, ok := t.Underlying().(*types.Basic); ok {
		return b.Kind()
	}
	return types.Invalid
}

func isSignedType(t types.Type) bool {
	switch basicKind(t) {
	case types.Int, types.Int8, types.Int16, types.Int32, types.Int64, types.UntypedInt, types.UntypedRune:
		return true
	}
	return false
}

// widthOf returns the bit width of an integer/bool type (0 for bool, -1 otherwise).
func widthOf(t types.Type) int {
	switch basicKind(t) {
	case types.Bool, types.UntypedBool:
		return 0
	case types.Int8, types.Uint8:
		return 8
	case types.Int16, types.Uint16:
		return 16
	case types.Int32, types.Uint32, types.UntypedRune:
		return 32
	case types.Int, types.Uint, types.Int64, types.Uint64, types.Uintptr, types.UntypedInt:
		return 64
	}
	return -1
}

// bitsOfConcrete returns the two's complement bits and width of a concrete scalar.
func bitsOfConcrete(x value) (uint64, uint8, bool) {
	switch x := x.(type) {
	case bool:
		if x {
			return 1, 0, true
		}
		return 0, 0, true
	case int:
		return uint64(x), 64, true
	case int8:
		return uint64(uint8(x)), 8, true
	case int16:
		return uint64(uint16(x)), 16, true
	case int32:
		return uint64(uint32(x)), 32, true
	case int64:
		return uint64(x), 64, true
	case uint:
		return uint64(x), 64, true
	case uint8:
		return uint64(x), 8, true
	case uint16:
		return uint64(x), 16, true
	case uint32:
		return uint64(x), 32, true
	case uint64:
		return x, 64, true
	case uintptr:
		return uint64(x), 64, true
	}
	return 0, 0, false
}

// term lifts a scalar value to a Term.
func (in *interpreter) term(x value) *Term {
	if t, ok := x.(*Term); ok {
		return t
	}
	if k, w, ok := bitsOfConcrete(x); ok {
		return in.needPath().tt.Const(w, k)
	}
	unsupported("cannot lift %T to a term", x)
	return nil
}

// concreteOf builds the concrete Go value of basic type t from bits.
func concreteOf(t types.Type, k uint64) value {
	switch basicKind(t) {
	case types.Bool, types.UntypedBool:
		return k != 0
	case types.Int, types.UntypedInt:
		return int(k)
	case types.Int8:
		return int8(k)
	case types.Int16:
		return int16(k)
	case types.Int32, types.UntypedRune:
		return int32(k)
	case types.Int64:
		return int64(k)
	case types.Uint:
		return uint(k)
	case types.Uint8:
		return uint8(k)
	case types.Uint16:
		return uint16(k)
	case types.Uint32:
		return uint32(k)
	case types.Uint64:
		return k
	case types.Uintptr:
		return uintptr(k)
	}
	panic(fmt.Sprintf("concreteOf: unexpected type %s", t))
}

// norm turns a constant Term back into a concrete value of type t.
func norm(t types.Type, x *Term) value {
	if x.Op == OpConst {
		return concreteOf(t, x.K)
	}
	return x
}

func strElems(s string) []value {
	r := make([]value, len(s))
	for i := 0; i < len(s); i++ {
		r[i] = s[i]
	}
	return r
}

// mkstr builds a string value from byte elements (string if all concrete).
func mkstr(elems []value) value {
	for _, e := range elems {
		if _, ok := e.(*Term); ok {
			return sstr(elems)
		}
	}
	b := make([]byte, len(elems))
	for i, e := range elems {
		b[i] = e.(uint8)
	}
	return string(b)
}

func strBytes(x value) []value {
	switch x := x.(type) {
	case string:
		return strElems(x)
	case sstr:
		return []value(x)
	}
	panic(fmt.Sprintf("strBytes: %T", x))
}

func isStr(x value) bool {
	switch x.(type) {
	case string, sstr:
		return true
	}
	return false
}

func strLen(x value) int {
	switch x := x.(type) {
	case string:
		return len(x)
	case sstr:
		return len(x)
	}
	panic("strLen")
}

// ---------------------------------------------------------------------

func (in *interpreter) binop(op token.Token, t types.Type, x, y value, ty types.Type) value {
	_, xs := x.(*Term)
	_, ys := y.(*Term)
	if xs || ys {
		return in.symBinop(op, t, x, y, ty)
	}
	_, xss := x.(sstr)
	_, yss := y.(sstr)
	if xss || yss {
		return in.strBinop(op, x, y)
	}
	switch op {
	case token.EQL:
		if needsSymEq(x) || needsSymEq(y) {
			return in.eqValue(t, x, y)
		}
	case token.NEQ:
		if needsSymEq(x) || needsSymEq(y) {
			return in.notValue(in.eqValue(t, x, y))
		}
	}
	return binop(op, t, x, y)
}

func needsSymEq(x value) bool {
	switch x.(type) {
	case structure, array, iface:
		return isSymbolic(x)
	}
	return false
}

func (in *interpreter) notValue(c value) value {
	switch c := c.(type) {
	case bool:
		return !c
	case *Term:
		return norm(types.Typ[types.Bool], in.needPath().tt.Not(c))
	}
	panic("notValue")
}

func (in *interpreter) symBinop(op token.Token, t types.Type, x, y value, ty types.Type) value {
	tt := in.needPath().tt
	signed := isSignedType(t)
	switch op {
	case token.SHL, token.SHR:
		a := in.term(x)
		b := in.term(y)
		if isSignedType(ty) {
			// negative shift count panics
			if in.truth(norm(types.Typ[types.Bool], tt.Slt(b, tt.Const(b.W, 0)))) {
				panic(targetPanic{in.runtimeError("negative shift amount")})
			}
		}
		// bring the count to the operand's width, saturating
		var cnt *Term
		switch {
		case b.W == a.W:
			cnt = b
		case b.W < a.W:
			cnt = tt.Zext(b, a.W)
		default:
			big := tt.Ule(tt.Const(b.W, uint64(a.W)), b)
			cnt = tt.Ite(big, tt.Const(a.W, uint64(a.W)), tt.Extract(b, a.W-1, 0))
		}
		var r *Term
		if op == token.SHL {
			r = tt.Bin(OpShl, a, cnt)
		} else if signed {
			r = tt.Bin(OpAshr, a, cnt)
		} else {
			r = tt.Bin(OpLshr, a, cnt)
		}
		return norm(t, r)
	}
	a := in.term(x)
	b := in.term(y)
	if a.W != b.W {
		unsupported("binop %s on widths %d,%d (type %s)", op, a.W, b.W, t)
	}
	if a.W == 0 {
		switch op {
		case token.EQL:
			return norm(t, tt.Eq(a, b))
		case token.NEQ:
			return norm(t, tt.Not(tt.Eq(a, b)))
		case token.AND, token.LAND:
			return norm(t, tt.And(a, b))
		case token.OR, token.LOR:
			return norm(t, tt.Or(a, b))
		}
		unsupported("bool binop %s", op)
	}
	boolT := types.Typ[types.Bool]
	switch op {
	case token.ADD:
		return norm(t, tt.Bin(OpAdd, a, b))
	case token.SUB:
		return norm(t, tt.Bin(OpSub, a, b))
	case token.MUL:
		return norm(t, tt.Bin(OpMul, a, b))
	case token.QUO, token.REM:
		if in.truth(norm(boolT, tt.Eq(b, tt.Const(b.W, 0)))) {
			panic(targetPanic{in.runtimeError("integer divide by zero")})
		}
		var o Op
		switch {
		case op == token.QUO && signed:
			o = OpSdiv
		case op == token.QUO:
			o = OpUdiv
		case signed:
			o = OpSrem
		default:
			o = OpUrem
		}
		return norm(t, tt.Bin(o, a, b))
	case token.AND:
		return norm(t, tt.Bin(OpBand, a, b))
	case token.OR:
		return norm(t, tt.Bin(OpBor, a, b))
	case token.XOR:
		return norm(t, tt.Bin(OpBxor, a, b))
	case token.AND_NOT:
		return norm(t, tt.Bin(OpBand, a, tt.Bnot(b)))
	case token.EQL:
		return norm(boolT, tt.Eq(a, b))
	case token.NEQ:
		return norm(boolT, tt.Not(tt.Eq(a, b)))
	case token.LSS:
		if signed {
			return norm(boolT, tt.Slt(a, b))
		}
		return norm(boolT, tt.Ult(a, b))
	case token.LEQ:
		if signed {
			return norm(boolT, tt.Sle(a, b))
		}
		return norm(boolT, tt.Ule(a, b))
	case token.GTR:
		if signed {
			return norm(boolT, tt.Slt(b, a))
		}
		return norm(boolT, tt.Ult(b, a))
	case token.GEQ:
		if signed {
			return norm(boolT, tt.Sle(b, a))
		}
		return norm(boolT, tt.Ule(b, a))
	}
	unsupported("symbolic binop %s on %s", op, t)
	return nil
}

// strBinop: string operators where at least one side is symbolic.
func (in *interpreter) strBinop(op token.Token, x, y value) value {
	xb, yb := strBytes(x), strBytes(y)
	boolT := types.Typ[types.Bool]
	switch op {
	case token.ADD:
		r := make([]value, 0, len(xb)+len(yb))
		r = append(r, xb...)
		r = append(r, yb...)
		return mkstr(r)
	case token.EQL:
		return norm(boolT, in.bytesEq(xb, yb))
	case token.NEQ:
		return norm(boolT, in.needPath().tt.Not(in.bytesEq(xb, yb)))
	case token.LSS:
		return norm(boolT, in.bytesLess(xb, yb, false))
	case token.LEQ:
		return norm(boolT, in.bytesLess(xb, yb, true))
	case token.GTR:
		return norm(boolT, in.bytesLess(yb, xb, false))
	case token.GEQ:
		return norm(boolT, in.bytesLess(yb, xb, true))
	}
	unsupported("string binop %s", op)
	return nil
}

func (in *interpreter) bytesEq(a, b []value) *Term {
	tt := in.needPath().tt
	if len(a) != len(b) {
		return tt.Bool(false)
	}
	r := tt.Bool(true)
	for i := range a {
		r = tt.And(r, tt.Eq(in.term(a[i]), in.term(b[i])))
		if r.IsFalse() {
			return r
		}
	}
	return r
}

// bytesLess: lexicographic a < b (or a <= b when orEq).
func (in *interpreter) bytesLess(a, b []value, orEq bool) *Term {
	tt := in.needPath().tt
	n := len(a)
	if len(b) < n {
		n = len(b)
	}
	// tail: all of the common prefix equal
	var r *Term
	if len(a) < len(b) {
		r = tt.Bool(true)
	} else if len(a) == len(b) {
		r = tt.Bool(orEq)
	} else {
		r = tt.Bool(false)
	}
	for i := n - 1; i >= 0; i-- {
		x, y := in.term(a[i]), in.term(b[i])
		r = tt.Ite(tt.Eq(x, y), r, tt.Ult(x, y))
	}
	return r
}

// eqValue compares two values of type t, possibly symbolically; returns bool or *Term.
func (in *interpreter) eqValue(t types.Type, x, y value) value {
	if !isSymbolic(x) && !isSymbolic(y) {
		return equals(t, x, y)
	}
	boolT := types.Typ[types.Bool]
	tt := in.needPath().tt
	switch xv := x.(type) {
	case *Term:
		return norm(boolT, tt.Eq(xv, in.term(y)))
	case string, sstr:
		return norm(boolT, in.bytesEq(strBytes(x), strBytes(y)))
	case structure:
		yv := y.(structure)
		st := t.Underlying().(*types.Struct)
		r := tt.Bool(true)
		for i := range xv {
			f := st.Field(i)
			if f.Name() == "_" {
				continue
			}
			c := in.eqValue(f.Type(), xv[i], yv[i])
			r = tt.And(r, in.boolTerm(c))
		}
		return norm(boolT, r)
	case array:
		yv := y.(array)
		et := t.Underlying().(*types.Array).Elem()
		r := tt.Bool(true)
		for i := range xv {
			r = tt.And(r, in.boolTerm(in.eqValue(et, xv[i], yv[i])))
		}
		return norm(boolT, r)
	case iface:
		yv := y.(iface)
		if !sameType(xv.t, yv.t) {
			return false
		}
		if xv.t == nil {
			return true
		}
		return in.eqValue(xv.t, xv.v, yv.v)
	default:
		if _, ok := y.(*Term); ok {
			return norm(boolT, tt.Eq(in.term(x), y.(*Term)))
		}
	}
	unsupported("symbolic equality on %T", x)
	return nil
}

func (in *interpreter) boolTerm(c value) *Term {
	switch c := c.(type) {
	case bool:
		return in.needPath().tt.Bool(c)
	case *Term:
		return c
	}
	panic("boolTerm")
}

func (in *interpreter) unop(instr *ssa.UnOp, x value) value {
	switch instr.Op {
	case token.MUL:
		return in.loadFrom(mustDeref(instr.X.Type()), x)
	case token.ARROW:
		v, ok := in.chanRecv(x.(*schan))
		if !ok {
			v = zero(instr.X.Type().Underlying().(*types.Chan).Elem())
		}
		if instr.CommaOk {
			v = tuple{v, ok}
		}
		return v
	}
	if tm, ok := x.(*Term); ok {
		tt := in.needPath().tt
		switch instr.Op {
		case token.NOT:
			return norm(instr.Type(), tt.Not(tm))
		case token.SUB:
			return norm(instr.Type(), tt.Neg(tm))
		case token.XOR:
			return norm(instr.Type(), tt.Bnot(tm))
		}
		unsupported("symbolic unop %s", instr.Op)
	}
	return unop(instr, x)
}

// symRef is the address of elems[idx] for a symbolic in-range index.
type symRef struct {
	elems []value
	idx   *Term
}

func scalarElems(elems []value) bool {
	for _, e := range elems {
		switch e.(type) {
		case *Term, bool, int, int8, int16, int32, int64, uint, uint8, uint16, uint32, uint64, uintptr:
		default:
			return false
		}
	}
	return true
}

// symIndexAddr returns the address of elems[idx]: a symRef for scalar
// elements, otherwise the index is concretised (fork per feasible value).
func (in *interpreter) symIndexAddr(elems []value, idx *Term, it types.Type) value {
	if len(elems) <= 4096 && scalarElems(elems) {
		return &symRef{elems: elems, idx: idx}
	}
	k := in.needPath().Concretize(idx)
	return &elems[k]
}

// symSelect returns elems[idx] for a symbolic in-range index.
func (in *interpreter) symSelect(elems []value, idx *Term, it types.Type) value {
	if len(elems) <= 4096 && scalarElems(elems) {
		return in.selectChain(elems, idx)
	}
	k := in.needPath().Concretize(idx)
	return elems[k]
}

func (in *interpreter) selectChain(elems []value, idx *Term) value {
	tt := in.needPath().tt
	if len(elems) == 0 {
		unsupported("select from empty sequence")
	}
	allConst := true
	var w uint8
	for i, e := range elems {
		k, ww, ok := bitsOfConcrete(e)
		_ = k
		if !ok {
			allConst = false
			ww = e.(*Term).W
		}
		if i == 0 {
			w = ww
		}
	}
	_ = allConst
	// tables made of few runs of equal values: one comparison per run boundary
	if len(elems) >= 16 {
		runs := 1
		for i := 1; i < len(elems); i++ {
			if elems[i] != elems[i-1] {
				runs++
			}
		}
		if runs*4 <= len(elems) {
			r := in.term(elems[len(elems)-1])
			for i := len(elems) - 1; i >= 1; i-- {
				if elems[i] != elems[i-1] {
					// indexes below i belong to earlier runs
					r = tt.Ite(tt.Ult(idx, tt.Const(idx.W, uint64(i))), in.term(elems[i-1]), r)
				}
			}
			return in.termValueLike(elems[0], r)
		}
	}
	// ite chain, last element as default
	r := in.term(elems[len(elems)-1])
	for i := len(elems) - 2; i >= 0; i-- {
		e := in.term(elems[i])
		if e == r {
			continue
		}
		r = tt.Ite(tt.Eq(idx, tt.Const(idx.W, uint64(i))), e, r)
	}
	_ = w
	return in.termValueLike(elems[0], r)
}

// termValueLike normalises r using the Go type of sample (a concrete value) when r is constant.
func (in *interpreter) termValueLike(sample value, r *Term) value {
	if r.Op != OpConst {
		return r
	}
	return constLike(sample, r.K)
}

func constLike(sample value, k uint64) value {
	switch sample.(type) {
	case bool:
		return k != 0
	case int:
		return int(k)
	case int8:
		return int8(k)
	case int16:
		return int16(k)
	case int32:
		return int32(k)
	case int64:
		return int64(k)
	case uint:
		return uint(k)
	case uint8:
		return uint8(k)
	case uint16:
		return uint16(k)
	case uint32:
		return uint32(k)
	case uint64:
		return k
	case uintptr:
		return uintptr(k)
	}
	return nil
}

// loadFrom loads a value of type T through a pointer value (which may be a symRef).
func (in *interpreter) loadFrom(T types.Type, p value) value {
	switch p := p.(type) {
	case *value:
		if p == nil {
			panic(targetPanic{in.runtimeError("invalid memory address or nil pointer dereference")})
		}
		return load(T, p)
	case *symRef:
		r := in.selectChain(p.elems, p.idx)
		if tm, ok := r.(*Term); ok {
			return norm(T, tm)
		}
		return r
	}
	panic(fmt.Sprintf("load through %T", p))
}

// storeTo stores v (type T) through a pointer value.
func (in *interpreter) storeTo(T types.Type, p value, v value) {
	switch p := p.(type) {
	case *value:
		if p == nil {
			panic(targetPanic{in.runtimeError("invalid memory address or nil pointer dereference")})
		}
		in.store(T, p, v)
	case *symRef:
		tt := in.needPath().tt
		nv := in.term(v)
		for i := range p.elems {
			old := in.term(p.elems[i])
			r := tt.Ite(tt.Eq(p.idx, tt.Const(p.idx.W, uint64(i))), nv, old)
			in.write(&p.elems[i], norm(T, r))
		}
	default:
		panic(fmt.Sprintf("store through %T", p))
	}
}

// store stores value v of type T into *addr (recording the undo trail).
func (in *interpreter) store(T types.Type, addr *value, v value) {
	switch T := T.Underlying().(type) {
	case *types.Struct:
		lhs := (*addr).(structure)
		rhs := v.(structure)
		for i := range lhs {
			in.store(T.Field(i).Type(), &lhs[i], rhs[i])
		}
	case *types.Array:
		lhs := (*addr).(array)
		rhs := v.(array)
		for i := range lhs {
			in.store(T.Elem(), &lhs[i], rhs[i])
		}
	default:
		in.write(addr, v)
	}
}

// slice implements x[lo:hi:max] with possibly symbolic bounds.
func (in *interpreter) slice(instr *ssa.Slice, x, lo, hi, max value) value {
	var Len, Cap int
	switch x := x.(type) {
	case string:
		Len = len(x)
		Cap = Len
	case sstr:
		Len = len(x)
		Cap = Len
	case []value:
		Len = len(x)
		Cap = cap(x)
	case *value: // *array
		if x == nil {
			panic(targetPanic{in.runtimeError("invalid memory address or nil pointer dereference")})
		}
		a := (*x).(array)
		Len = len(a)
		Cap = cap(a)
	}
	_, los := lo.(*Term)
	_, his := hi.(*Term)
	_, ms := max.(*Term)
	if los || his || ms {
		// bounds check symbolically first (one fork: in range / panic), then enumerate.
		tt := in.needPath().tt
		mk := func(v value, t ssa.Value, def int) (*Term, bool) {
			if v == nil {
				return tt.Const(64, uint64(def)), true
			}
			tm := in.term(v)
			signed := isSignedType(t.Type())
			if tm.W < 64 {
				if signed {
					tm = tt.Sext(tm, 64)
				} else {
					tm = tt.Zext(tm, 64)
				}
			}
			return tm, signed
		}
		l, _ := mk(lo, instr.Low, 0)
		defHi := Len
		h, _ := mk(hi, instr.High, defHi)
		m, _ := mk(max, instr.Max, Cap)
		z := tt.Const(64, 0)
		ok := tt.And(tt.Sle(z, l), tt.And(tt.Sle(l, h), tt.And(tt.Sle(h, m), tt.Sle(m, tt.Const(64, uint64(Cap))))))
		// unsigned 64-bit values >= 2^63 appear negative here, which is also out of range: fine.
		if !in.truth(norm(types.Typ[types.Bool], ok)) {
			panic(targetPanic{in.runtimeError("slice bounds out of range [symbolic]")})
		}
		if los {
			lo = int64(in.needPath().Concretize(l))
		}
		if his {
			hi = int64(in.needPath().Concretize(h))
		}
		if ms {
			max = int64(in.needPath().Concretize(m))
		}
	}
	l := int64(0)
	if lo != nil {
		l = asInt64(lo)
	}
	h := int64(Len)
	if hi != nil {
		h = asInt64(hi)
	}
	m := int64(Cap)
	if max != nil {
		m = asInt64(max)
	}
	if l < 0 || h < l || m < h || m > int64(Cap) {
		panic(targetPanic{in.runtimeError(fmt.Sprintf("slice bounds out of range [%d:%d:%d] with capacity %d", l, h, m, Cap))})
	}
	switch x := x.(type) {
	case string:
		return x[l:h]
	case sstr:
		return mkstr([]value(x[l:h]))
	case []value:
		return x[l:h:m]
	case *value: // *array
		a := (*x).(array)
		return []value(a)[l:h:m]
	}
	panic(fmt.Sprintf("slice: unexpected X type: %T", x))
}

// lookup returns x[idx] where x is a map.
func (in *interpreter) lookup(instr *ssa.Lookup, x, idx value) value {
	m, ok := x.(*omap)
	if !ok {
		panic(fmt.Sprintf("unexpected x type in Lookup: %T", x))
	}
	v, found := m.lookup(in, idx)
	if !found {
		v = zero(instr.X.Type().Underlying().(*types.Map).Elem())
	}
	if instr.CommaOk {
		v = tuple{v, found}
	}
	return v
}

// ---------------------------------------------------------------------
// range over strings (concrete and symbolic).

type sstrIter struct {
	in *interpreter
	b  []value
	i  int
}

func (it *sstrIter) next() tuple {
	if it.i >= len(it.b) {
		return tuple{false, nil, nil}
	}
	r, n := it.in.decodeRune(it.b[it.i:])
	pos := it.i
	it.i += n
	return tuple{true, pos, r}
}

// decodeRune decodes one UTF-8 sequence from possibly symbolic bytes,
// forking on the byte classes exactly as utf8.DecodeRune does.
func (in *interpreter) decodeRune(b []value) (value, int) {
	// fast path: concrete prefix
	allc := true
	n := len(b)
	if n > 4 {
		n = 4
	}
	cb := make([]byte, 0, 4)
	for i := 0; i < n; i++ {
		c, ok := b[i].(uint8)
		if !ok {
			allc = false
			break
		}
		cb = append(cb, c)
	}
	if c0, ok := b[0].(uint8); ok && c0 < utf8.RuneSelf {
		return int32(c0), 1
	}
	if allc {
		r, sz := utf8.DecodeRune(cb)
		return r, sz
	}
	p := in.needPath()
	// bytes produced by encodeRune from a symbolic rune decode back to that rune
	if t0, ok := b[0].(*Term); ok {
		if rec, ok := p.runes[t0]; ok && len(b) >= len(rec.bytes) {
			same := true
			for i := range rec.bytes {
				if b[i] != rec.bytes[i] {
					same = false
					break
				}
			}
			if same {
				return norm(types.Typ[types.Int32], rec.r), len(rec.bytes)
			}
		}
	}
	tt := p.tt
	boolT := types.Typ[types.Bool]
	c0 := in.term(b[0])
	lt := func(a *Term, k uint64) bool { return in.truth(norm(boolT, tt.Ult(a, tt.Const(8, k)))) }
	rerr := int32(utf8.RuneError)
	if lt(c0, 0x80) {
		return norm(types.Typ[types.Int32], tt.Zext(c0, 32)), 1
	}
	if lt(c0, 0xC2) {
		return rerr, 1
	}
	cont := func(i int, lo, hi uint64) (*Term, bool) {
		if i >= len(b) {
			return nil, false
		}
		c := in.term(b[i])
		ok := in.truth(norm(boolT, tt.And(tt.Ule(tt.Const(8, lo), c), tt.Ule(c, tt.Const(8, hi)))))
		return c, ok
	}
	low6 := func(c *Term) *Term { return tt.Zext(tt.Bin(OpBand, c, tt.Const(8, 0x3f)), 32) }
	shl := func(a *Term, k uint64) *Term { return tt.Bin(OpShl, a, tt.Const(32, k)) }
	or := func(a, b *Term) *Term { return tt.Bin(OpBor, a, b) }
	i32 := types.Typ[types.Int32]
	if lt(c0, 0xE0) {
		c1, ok := cont(1, 0x80, 0xBF)
		if !ok {
			return rerr, 1
		}
		r := or(shl(tt.Zext(tt.Bin(OpBand, c0, tt.Const(8, 0x1f)), 32), 6), low6(c1))
		return norm(i32, r), 2
	}
	if lt(c0, 0xF0) {
		lo, hi := uint64(0x80), uint64(0xBF)
		// E0: A0..BF ; ED: 80..9F
		if in.truth(norm(boolT, tt.Eq(c0, tt.Const(8, 0xE0)))) {
			lo = 0xA0
		} else if in.truth(norm(boolT, tt.Eq(c0, tt.Const(8, 0xED)))) {
			hi = 0x9F
		}
		c1, ok := cont(1, lo, hi)
		if !ok {
			return rerr, 1
		}
		c2, ok := cont(2, 0x80, 0xBF)
		if !ok {
			return rerr, 1
		}
		r := or(or(shl(tt.Zext(tt.Bin(OpBand, c0, tt.Const(8, 0x0f)), 32), 12), shl(low6(c1), 6)), low6(c2))
		return norm(i32, r), 3
	}
	if lt(c0, 0xF5) {
		lo, hi := uint64(0x80), uint64(0xBF)
		if in.truth(norm(boolT, tt.Eq(c0, tt.Const(8, 0xF0)))) {
			lo = 0x90
		} else if in.truth(norm(boolT, tt.Eq(c0, tt.Const(8, 0xF4)))) {
			hi = 0x8F
		}
		c1, ok := cont(1, lo, hi)
		if !ok {
			return rerr, 1
		}
		c2, ok := cont(2, 0x80, 0xBF)
		if !ok {
			return rerr, 1
		}
		c3, ok := cont(3, 0x80, 0xBF)
		if !ok {
			return rerr, 1
		}
		r := or(or(or(shl(tt.Zext(tt.Bin(OpBand, c0, tt.Const(8, 0x07)), 32), 18), shl(low6(c1), 12)), shl(low6(c2), 6)), low6(c3))
		return norm(i32, r), 4
	}
	return rerr, 1
}

func (in *interpreter) rangeIter(x value, t types.Type) iter {
	switch x := x.(type) {
	case *omap:
		if in.mapOrderBoth && in.path != nil && x.len() >= 2 {
			// Go's map iteration order is unspecified: the harness asked for both the insertion
			// order and its reverse to be explored (one choice per path)
			if !in.mapOrderDecided {
				in.mapOrderDecided = true
				in.mapOrderRev = in.path.Choose(2) == 1
			}
			return &omapIter{m: x, rev: in.mapOrderRev}
		}
		return &omapIter{m: x}
	case string:
		return &sstrIter{in: in, b: strElems(x)}
	case sstr:
		return &sstrIter{in: in, b: []value(x)}
	}
	panic(fmt.Sprintf("cannot range over %T", x))
}

// encodeRune: UTF-8 encoding of a possibly symbolic rune (forks on size class).
func (in *interpreter) encodeRune(r value) []value {
	if c, ok := r.(int32); ok {
		var buf [4]byte
		n := utf8.EncodeRune(buf[:], c)
		out := make([]value, n)
		for i := 0; i < n; i++ {
			out[i] = buf[i]
		}
		return out
	}
	tm := r.(*Term)
	out := in.encodeRuneSym(tm)
	if t0, ok := out[0].(*Term); ok {
		p := in.needPath()
		if p.runes == nil {
			p.runes = make(map[*Term]runeRec)
		}
		p.runes[t0] = runeRec{r: tm, bytes: out}
	}
	return out
}

type runeRec struct {
	r     *Term
	bytes []value
}

func (in *interpreter) encodeRuneSym(tm *Term) []value {
	tt := in.needPath().tt
	boolT := types.Typ[types.Bool]
	ult := func(k uint64) bool { return in.truth(norm(boolT, tt.Ult(tm, tt.Const(32, k)))) }
	b8 := func(t *Term) value { return norm(types.Typ[types.Uint8], tt.Extract(t, 7, 0)) }
	shr := func(k uint64) *Term { return tt.Bin(OpLshr, tm, tt.Const(32, k)) }
	and := func(a *Term, k uint64) *Term { return tt.Bin(OpBand, a, tt.Const(32, k)) }
	or := func(a *Term, k uint64) *Term { return tt.Bin(OpBor, a, tt.Const(32, k)) }
	if ult(0x80) {
		return []value{b8(tm)}
	}
	if ult(0x800) {
		return []value{b8(or(shr(6), 0xC0)), b8(or(and(tm, 0x3f), 0x80))}
	}
	// surrogates and out of range -> U+FFFD
	isSur := tt.And(tt.Ule(tt.Const(32, 0xD800), tm), tt.Ule(tm, tt.Const(32, 0xDFFF)))
	if in.truth(norm(boolT, tt.Or(isSur, tt.Ult(tt.Const(32, 0x10FFFF), tm)))) {
		return []value{uint8(0xEF), uint8(0xBF), uint8(0xBD)}
	}
	if ult(0x10000) {
		return []value{b8(or(shr(12), 0xE0)), b8(or(and(shr(6), 0x3f), 0x80)), b8(or(and(tm, 0x3f), 0x80))}
	}
	return []value{b8(or(shr(18), 0xF0)), b8(or(and(shr(12), 0x3f), 0x80)), b8(or(and(shr(6), 0x3f), 0x80)), b8(or(and(tm, 0x3f), 0x80))}
}

// conv: conversions with symbolic operands; falls back to the concrete conv.
func (in *interpreter) conv(t_dst, t_src types.Type, x value) value {
	ut_src := t_src.Underlying()
	ut_dst := t_dst.Underlying()
	switch xv := x.(type) {
	case *Term:
		db, ok := ut_dst.(*types.Basic)
		if !ok {
			unsupported("conversion of symbolic %s to %s", t_src, t_dst)
		}
		tt := in.needPath().tt
		if db.Kind() == types.String {
			// string(rune)
			var r value = xv
			if xv.W != 32 {
				if isSignedType(t_src) {
					r = tt.Sext(xv, 32)
				} else {
					r = tt.Zext(xv, 32)
				}
				if xv.W > 32 {
					unsupported("string(int64 symbolic)")
				}
			}
			return mkstr(in.encodeRune(r))
		}
		dw := widthOf(t_dst)
		if dw <= 0 {
			if db.Info()&types.IsFloat != 0 {
				unsupported("symbolic integer to float conversion (%s -> %s)", t_src, t_dst)
			}
			unsupported("conversion of symbolic %s to %s", t_src, t_dst)
		}
		var r *Term
		switch {
		case uint8(dw) == xv.W:
			r = xv
		case uint8(dw) < xv.W:
			r = tt.Extract(xv, uint8(dw)-1, 0)
		case isSignedType(t_src):
			r = tt.Sext(xv, uint8(dw))
		default:
			r = tt.Zext(xv, uint8(dw))
		}
		return norm(t_dst, r)
	case sstr:
		switch d := ut_dst.(type) {
		case *types.Slice:
			switch d.Elem().Underlying().(*types.Basic).Kind() {
			case types.Byte:
				r := make([]value, len(xv))
				copy(r, xv)
				return r
			case types.Rune:
				var res []value
				b := []value(xv)
				for i := 0; i < len(b); {
					r, n := in.decodeRune(b[i:])
					res = append(res, r)
					i += n
				}
				return res
			}
		case *types.Basic:
			if d.Kind() == types.String {
				return xv
			}
		}
		unsupported("conversion of symbolic string to %s", t_dst)
	case []value:
		if s, ok := ut_src.(*types.Slice); ok {
			if db, ok := ut_dst.(*types.Basic); ok && db.Kind() == types.String {
				switch s.Elem().Underlying().(*types.Basic).Kind() {
				case types.Byte:
					r := make([]value, len(xv))
					copy(r, xv)
					return mkstr(r)
				case types.Rune:
					var out []value
					for _, r := range xv {
						out = append(out, in.encodeRune(r)...)
					}
					return mkstr(out)
				}
			}
		}
	}
	return conv(t_dst, t_src, x)
}
