// Copyright 2013 The Go Authors. All rights reserved.
// Use of this source code is governed by a BSD-style
// license that can be found in the LICENSE file.

// Package gosym is a symbolic interpreter for the SSA form of Go programs.
// It is derived from golang.org/x/tools/go/ssa/interp (same boxed value
// representation) and extended with symbolic scalars (*Term), symbolic
// strings (sstr), an SMT-backed decision procedure for branches, a decision
// trace for re-execution based path exploration, an undo trail so that
// package-level state initialised once per worker is restored after every
// path, deterministic green threads, and a set of intrinsics (package
// zz_verifsym) through which harnesses obtain nondeterministic inputs and
// state assumptions and assertions.
package gosym

import (
	"fmt"
	"go/constant"
	"go/token"
	"go/types"
	"os"
	"sort"
	"sync"
	"runtime"
	"slices"
	"strings"

	"golang.org/x/tools/go/ssa"
)

type continuation int

const (
	kNext continuation = iota
	kReturn
	kJump
)

type methodSet map[string]*ssa.Function

// engineAbort is the panic value used for engine-level control flow: it is
// never visible to target-level recover().
type engineAbort struct {
	kind string // "assume", "unsupported", "budget", "killed", "unwind", "solver"
	msg  string
}

func (e engineAbort) Error() string { return e.kind + ": " + e.msg }

func unsupported(format string, args ...interface{}) {
	panic(engineAbort{"unsupported", fmt.Sprintf(format, args...)})
}

type trailEntry struct {
	addr *value
	old  value
	undo func()
}

// interpreter: one per worker.
type interpreter struct {
	prog               *ssa.Program
	globals            map[*ssa.Global]*value
	sizes              types.Sizes
	reflectPackage     *ssa.Package
	errorMethods       methodSet
	rtypeMethods       methodSet
	runtimeErrorString types.Type
	vsPkgPath          string

	path      *Path // current path (nil while running package initialisers)
	trail     []trailEntry
	trailOn   bool
	inited    map[*ssa.Package]bool
	initFail  map[string]string
	stubs     map[string]*ssa.Function // full function name -> harness replacement
	steps     int64
	stepLimit int64
	trace     bool
	sched     *scheduler
	funcsSeen map[*ssa.Function]bool // functions executed (evidence)
	curFrame  *frame
	lastPanicWhere string
	spec           bool // speculative evaluation of a pure branch arm (tryMerge)
	noMerge        bool
	scaleFrom      int64
	scaleTo        int64
	mapOrderBoth    bool
	mapOrderDecided bool
	mapOrderRev     bool
}

type deferred struct {
	fn    value
	args  []value
	instr *ssa.Defer
	tail  *deferred
}

type frame struct {
	i                *interpreter
	caller           *frame
	fn               *ssa.Function
	block, prevBlock *ssa.BasicBlock
	env              map[ssa.Value]value // dynamic values of SSA variables
	locals           []value
	defers           *deferred
	result           value
	panicking        bool
	panic            interface{}
	phitemps         []value // temporaries for parallel phi assignment
	skipPhis         bool
	curInstr         ssa.Instruction
}

func (in *interpreter) write(addr *value, v value) {
	if in.trailOn {
		in.trail = append(in.trail, trailEntry{addr: addr, old: *addr})
	}
	*addr = v
}

func (in *interpreter) trailFunc(f func()) {
	if in.trailOn {
		in.trail = append(in.trail, trailEntry{undo: f})
	}
}

func (in *interpreter) rollback() {
	for k := len(in.trail) - 1; k >= 0; k-- {
		e := in.trail[k]
		if e.undo != nil {
			e.undo()
		} else {
			*e.addr = e.old
		}
	}
	in.trail = in.trail[:0]
}

func (fr *frame) get(key ssa.Value) value {
	switch key := key.(type) {
	case nil:
		// Hack; simplifies handling of optional attributes
		// such as ssa.Slice.{Low,High}.
		return nil
	case *ssa.Function:
		return key
	case *ssa.Builtin:
		return key
	case *ssa.Const:
		if fr.i.scaleFrom != 0 && fr.i.path != nil && key.Value != nil && key.Value.Kind() == constant.Int {
			if v, ok := constant.Int64Val(key.Value); ok && v == fr.i.scaleFrom && !strings.Contains(fr.i.prog.Fset.Position(fr.fn.Pos()).Filename, "zz_verif") && fr.fn.Pkg != nil && strings.HasPrefix(fr.fn.Pkg.Pkg.Path(), "github.com/XiaoMi/Gaea") {
				if bt, ok := key.Type().Underlying().(*types.Basic); ok && bt.Info()&types.IsInteger != 0 {
					return constValue(ssa.NewConst(constant.MakeInt64(fr.i.scaleTo), key.Type()))
				}
			}
		}
		return constValue(key)
	case *ssa.Global:
		fr.i.ensureInit(key.Pkg)
		if r, ok := fr.i.globals[key]; ok {
			return r
		}
		// global of a package created after interpreter construction
		cell := zero(mustDeref(key.Type()))
		fr.i.globals[key] = &cell
		return &cell
	}
	if r, ok := fr.env[key]; ok {
		return r
	}
	panic(fmt.Sprintf("get: no value for %T: %v", key, key.Name()))
}

func mustDeref(t types.Type) types.Type {
	if p, ok := t.Underlying().(*types.Pointer); ok {
		return p.Elem()
	}
	panic("mustDeref: not a pointer: " + t.String())
}

// runDefer runs a deferred call d.
// It always returns normally, but may set or clear fr.panic.
func (fr *frame) runDefer(d *deferred) {
	var ok bool
	defer func() {
		if !ok {
			// Deferred call created a new state of panic.
			r := recover()
			if ea, isAbort := r.(engineAbort); isAbort {
				panic(ea)
			}
			fr.panicking = true
			fr.panic = r
		}
	}()
	call(fr.i, fr, d.instr.Pos(), d.fn, d.args)
	ok = true
}

// runDefers executes fr's deferred function calls in LIFO order.
func (fr *frame) runDefers() {
	for d := fr.defers; d != nil; d = d.tail {
		fr.runDefer(d)
	}
	fr.defers = nil
	if fr.panicking {
		panic(fr.panic) // new panic, or still panicking
	}
}

// lookupMethod returns the method set for type typ, which may be one
// of the interpreter's fake types.
func lookupMethod(i *interpreter, typ types.Type, meth *types.Func) *ssa.Function {
	switch typ {
	case rtypeType:
		return i.rtypeMethods[meth.Id()]
	case errorType:
		return i.errorMethods[meth.Id()]
	}
	return i.prog.LookupMethod(typ, meth.Pkg(), meth.Name())
}

// truth decides a boolean that may be symbolic (forking the path).
func (in *interpreter) truth(c value) bool {
	switch c := c.(type) {
	case bool:
		return c
	case *Term:
		if c.Op == OpConst {
			return c.K != 0
		}
		in.profDecision("branch")
		return in.needPath().Branch(c)
	}
	panic(fmt.Sprintf("truth: unexpected %T", c))
}

func (in *interpreter) needPath() *Path {
	if in.path == nil {
		panic(engineAbort{"unsupported", "symbolic decision outside a path (package initialiser?)"})
	}
	return in.path
}

// concreteInt turns an integer value (possibly symbolic) of static type t into int64,
// enumerating feasible values when symbolic.
func (in *interpreter) concreteInt(t types.Type, x value) int64 {
	if tm, ok := x.(*Term); ok {
		in.profDecision("concretize")
		v := in.needPath().Concretize(tm)
		if isSignedType(t) {
			return sext64(v, tm.W)
		}
		return int64(v)
	}
	return asInt64(x)
}

// indexCheck checks 0 <= idx < n for a possibly symbolic index (forking into
// the panic path) and returns the index as a value (int64 if concrete).
func (in *interpreter) indexCheck(t types.Type, idx value, n int) value {
	if tm, ok := idx.(*Term); ok {
		tt := in.needPath().tt
		var inRange *Term
		nn := tt.Const(tm.W, uint64(n))
		if isSignedType(t) {
			inRange = tt.And(tt.Sle(tt.Const(tm.W, 0), tm), tt.Slt(tm, nn))
		} else {
			if uint64(n) > mask(tm.W) {
				inRange = tt.Bool(true)
			} else {
				inRange = tt.Ult(tm, nn)
			}
		}
		if !in.truth(inRange) {
			panic(targetPanic{in.runtimeError(fmt.Sprintf("index out of range [symbolic] with length %d", n))})
		}
		return tm
	}
	i := asInt64(idx)
	if i < 0 || i >= int64(n) {
		panic(targetPanic{in.runtimeError(fmt.Sprintf("index out of range [%d] with length %d", i, n))})
	}
	return i
}

func (in *interpreter) runtimeError(msg string) value {
	return iface{in.runtimeErrorString, "runtime error: " + msg}
}

// visitInstr interprets a single ssa.Instruction within the activation
// record frame.  It returns a continuation value indicating where to
// read the next instruction from.
func visitInstr(fr *frame, instr ssa.Instruction) continuation {
	in := fr.i
	switch instr := instr.(type) {
	case *ssa.DebugRef:
		// no-op

	case *ssa.UnOp:
		fr.env[instr] = in.unop(instr, fr.get(instr.X))

	case *ssa.BinOp:
		fr.env[instr] = in.binop(instr.Op, instr.X.Type(), fr.get(instr.X), fr.get(instr.Y), instr.Y.Type())

	case *ssa.Call:
		fn, args := prepareCall(fr, &instr.Call)
		fr.env[instr] = call(fr.i, fr, instr.Pos(), fn, args)

	case *ssa.ChangeInterface:
		fr.env[instr] = fr.get(instr.X)

	case *ssa.ChangeType:
		fr.env[instr] = fr.get(instr.X) // (can't fail)

	case *ssa.Convert:
		fr.env[instr] = in.conv(instr.Type(), instr.X.Type(), fr.get(instr.X))

	case *ssa.SliceToArrayPointer:
		fr.env[instr] = sliceToArrayPointer(instr.Type(), instr.X.Type(), fr.get(instr.X))

	case *ssa.MakeInterface:
		fr.env[instr] = iface{t: instr.X.Type(), v: fr.get(instr.X)}

	case *ssa.Extract:
		fr.env[instr] = fr.get(instr.Tuple).(tuple)[instr.Index]

	case *ssa.Slice:
		fr.env[instr] = in.slice(instr, fr.get(instr.X), fr.get(instr.Low), fr.get(instr.High), fr.get(instr.Max))

	case *ssa.Return:
		switch len(instr.Results) {
		case 0:
		case 1:
			fr.result = fr.get(instr.Results[0])
		default:
			var res []value
			for _, r := range instr.Results {
				res = append(res, fr.get(r))
			}
			fr.result = tuple(res)
		}
		fr.block = nil
		return kReturn

	case *ssa.RunDefers:
		fr.runDefers()

	case *ssa.Panic:
		panic(targetPanic{fr.get(instr.X)})

	case *ssa.Send:
		in.chanSend(fr.get(instr.Chan).(*schan), fr.get(instr.X))

	case *ssa.Store:
		in.storeTo(mustDeref(instr.Addr.Type()), fr.get(instr.Addr), fr.get(instr.Val))

	case *ssa.If:
		if tm, ok := fr.get(instr.Cond).(*Term); ok && tm.Op != OpConst && in.path != nil && !in.spec {
			if in.tryMerge(fr, tm) {
				return kJump
			}
		}
		succ := 1
		if in.truth(fr.get(instr.Cond)) {
			succ = 0
		}
		fr.prevBlock, fr.block = fr.block, fr.block.Succs[succ]
		return kJump

	case *ssa.Jump:
		fr.prevBlock, fr.block = fr.block, fr.block.Succs[0]
		return kJump

	case *ssa.Defer:
		fn, args := prepareCall(fr, &instr.Call)
		defers := &fr.defers
		if into := fr.get(instr.DeferStack); into != nil {
			defers = into.(**deferred)
		}
		*defers = &deferred{
			fn:    fn,
			args:  args,
			instr: instr,
			tail:  *defers,
		}

	case *ssa.Go:
		fn, args := prepareCall(fr, &instr.Call)
		in.spawn(fn, args, instr.Pos())

	case *ssa.MakeChan:
		fr.env[instr] = in.makeChan(int(in.concreteInt(instr.Size.Type(), fr.get(instr.Size))))

	case *ssa.Alloc:
		var addr *value
		if instr.Heap {
			// new
			addr = new(value)
			fr.env[instr] = addr
			*addr = zero(mustDeref(instr.Type()))
		} else {
			// local
			addr = fr.env[instr].(*value)
			in.write(addr, zero(mustDeref(instr.Type())))
		}

	case *ssa.MakeSlice:
		c := in.concreteInt(instr.Cap.Type(), fr.get(instr.Cap))
		l := in.concreteInt(instr.Len.Type(), fr.get(instr.Len))
		if l < 0 || c < 0 || l > c {
			panic(targetPanic{in.runtimeError("makeslice: len out of range")})
		}
		if c > 1<<26 {
			unsupported("make of %d elements", c)
		}
		slice := make([]value, c)
		tElt := instr.Type().Underlying().(*types.Slice).Elem()
		for i := range slice {
			slice[i] = zero(tElt)
		}
		fr.env[instr] = slice[:l]

	case *ssa.MakeMap:
		fr.env[instr] = makeMap(instr.Type().Underlying().(*types.Map).Key(), 0)

	case *ssa.Range:
		fr.env[instr] = in.rangeIter(fr.get(instr.X), instr.X.Type())

	case *ssa.Next:
		fr.env[instr] = fr.get(instr.Iter).(iter).next()

	case *ssa.FieldAddr:
		p := fr.get(instr.X).(*value)
		if p == nil {
			panic(targetPanic{in.runtimeError("invalid memory address or nil pointer dereference")})
		}
		fr.env[instr] = &(*p).(structure)[instr.Field]

	case *ssa.Field:
		fr.env[instr] = fr.get(instr.X).(structure)[instr.Field]

	case *ssa.IndexAddr:
		x := fr.get(instr.X)
		idx := fr.get(instr.Index)
		var elems []value
		switch x := x.(type) {
		case []value:
			elems = x
		case *value: // *array
			if x == nil {
				panic(targetPanic{in.runtimeError("invalid memory address or nil pointer dereference")})
			}
			elems = (*x).(array)
		default:
			panic(fmt.Sprintf("unexpected x type in IndexAddr: %T", x))
		}
		switch i := in.indexCheck(instr.Index.Type(), idx, len(elems)).(type) {
		case int64:
			fr.env[instr] = &elems[i]
		case *Term:
			fr.env[instr] = in.symIndexAddr(elems, i, instr.Index.Type())
		}

	case *ssa.Index:
		x := fr.get(instr.X)
		idx := fr.get(instr.Index)
		switch x := x.(type) {
		case array:
			switch i := in.indexCheck(instr.Index.Type(), idx, len(x)).(type) {
			case int64:
				fr.env[instr] = x[i]
			case *Term:
				fr.env[instr] = in.symSelect([]value(x), i, instr.Index.Type())
			}
		case string:
			switch i := in.indexCheck(instr.Index.Type(), idx, len(x)).(type) {
			case int64:
				fr.env[instr] = x[i]
			case *Term:
				fr.env[instr] = in.symSelect(strElems(x), i, instr.Index.Type())
			}
		case sstr:
			switch i := in.indexCheck(instr.Index.Type(), idx, len(x)).(type) {
			case int64:
				fr.env[instr] = x[i]
			case *Term:
				fr.env[instr] = in.symSelect([]value(x), i, instr.Index.Type())
			}
		default:
			panic(fmt.Sprintf("unexpected x type in Index: %T", x))
		}

	case *ssa.Lookup:
		fr.env[instr] = in.lookup(instr, fr.get(instr.X), fr.get(instr.Index))

	case *ssa.MapUpdate:
		m := fr.get(instr.Map).(*omap)
		if m == nil {
			panic(targetPanic{iface{in.runtimeErrorString, "assignment to entry in nil map"}})
		}
		m.insert(in, fr.get(instr.Key), fr.get(instr.Value))

	case *ssa.TypeAssert:
		fr.env[instr] = typeAssert(fr.i, instr, fr.get(instr.X).(iface))

	case *ssa.MakeClosure:
		var bindings []value
		for _, binding := range instr.Bindings {
			bindings = append(bindings, fr.get(binding))
		}
		fr.env[instr] = &closure{instr.Fn.(*ssa.Function), bindings}

	case *ssa.Phi:
		panic("unreachable") // phis are processed at block entry

	case *ssa.Select:
		fr.env[instr] = in.selectStmt(fr, instr)

	default:
		panic(fmt.Sprintf("unexpected instruction: %T", instr))
	}
	return kNext
}

// prepareCall determines the function value and argument values for a
// function call in a Call, Go or Defer instruction, performing
// interface method lookup if needed.
func prepareCall(fr *frame, call *ssa.CallCommon) (fn value, args []value) {
	v := fr.get(call.Value)
	if call.Method == nil {
		// Function call.
		fn = v
	} else {
		// Interface method invocation.
		recv := v.(iface)
		if recv.t == nil {
			panic(targetPanic{fr.i.runtimeError("invalid memory address or nil pointer dereference (method " + call.Method.Name() + " invoked on nil interface)")})
		}
		if f := lookupMethod(fr.i, recv.t, call.Method); f == nil {
			// Unreachable in well-typed programs.
			panic(fmt.Sprintf("method set for dynamic type %v does not contain %s", recv.t, call.Method))
		} else {
			fn = f
		}
		args = append(args, recv.v)
	}
	for _, arg := range call.Args {
		args = append(args, fr.get(arg))
	}
	return
}

// call interprets a call to a function (function, builtin or closure)
// fn with arguments args, returning its result.
// callpos is the position of the callsite.
func call(i *interpreter, caller *frame, callpos token.Pos, fn value, args []value) value {
	switch fn := fn.(type) {
	case *ssa.Function:
		if fn == nil {
			panic(targetPanic{i.runtimeError("invalid memory address or nil pointer dereference (call of nil func)")})
		}
		return callSSA(i, caller, callpos, fn, args, nil)
	case *closure:
		return callSSA(i, caller, callpos, fn.Fn, args, fn.Env)
	case *ssa.Builtin:
		return callBuiltin(caller, callpos, fn, args)
	}
	panic(fmt.Sprintf("cannot call %T", fn))
}

func loc(fset *token.FileSet, pos token.Pos) string {
	if pos == token.NoPos {
		return ""
	}
	return " at " + fset.Position(pos).String()
}

// callSSA interprets a call to function fn with arguments args,
// and lexical environment env, returning its result.
// callpos is the position of the callsite.
func callSSA(i *interpreter, caller *frame, callpos token.Pos, fn *ssa.Function, args []value, env []value) value {
	if i.trace {
		fmt.Fprintf(os.Stderr, "Entering %s%s.\n", fn, loc(fn.Prog.Fset, fn.Pos()))
		defer fmt.Fprintf(os.Stderr, "Leaving %s.\n", fn)
	}
	fr := &frame{
		i:      i,
		caller: caller, // for panic/recover
		fn:     fn,
	}
	if fn.Parent() == nil {
		if fn.Synthetic == "package initializer" {
			i.ensureInit(fn.Pkg)
			return nil
		}
		name := fn.String()
		if fn.Pkg != nil && fn.Pkg.Pkg.Path() == i.vsPkgPath {
			if h := vsIntrinsics[fn.Name()]; h != nil {
				return h(fr, args)
			}
		}
		if st := i.stubs[name]; st != nil && i.path != nil && (caller == nil || caller.fn != st) {
			return callSSA(i, caller, callpos, st, args, nil)
		}
		if ext := externals[name]; ext != nil {
			return ext(fr, args)
		}
		if cext := condExternals[name]; cext != nil {
			if r, handled := cext(fr, args); handled {
				return r
			}
		}
		if fn.Blocks == nil {
			// generic instantiations and wrappers have bodies; this is an
			// assembly / linkname function we have no model of.
			if orig := fn.Origin(); orig != nil {
				if ext := externals[orig.String()]; ext != nil {
					return ext(fr, args)
				}
			}
			unsupported("no code for function: %s", name)
		}
		if fn.Pkg != nil {
			i.ensureInit(fn.Pkg)
		}
	}

	// generic function body?
	if fn.TypeParams().Len() > 0 && len(fn.TypeArgs()) == 0 {
		panic("interp requires ssa.BuilderMode to include InstantiateGenerics to execute generics")
	}
	if i.funcsSeen != nil {
		i.funcsSeen[fn] = true
	}

	fr.env = make(map[ssa.Value]value, 16)
	fr.block = fn.Blocks[0]
	fr.locals = make([]value, len(fn.Locals))
	for i, l := range fn.Locals {
		fr.locals[i] = zero(mustDeref(l.Type()))
		fr.env[l] = &fr.locals[i]
	}
	for i, p := range fn.Params {
		fr.env[p] = args[i]
	}
	for i, fv := range fn.FreeVars {
		fr.env[fv] = env[i]
	}
	for fr.block != nil {
		runFrame(fr)
	}
	return fr.result
}

// runFrame executes SSA instructions starting at fr.block and
// continuing until a return, a panic, or a recovered panic.
func runFrame(fr *frame) {
	defer func() {
		if fr.block == nil {
			return // normal return
		}
		r := recover()
		if ea, ok := r.(engineAbort); ok {
			panic(ea)
		}
		if gp, ok := r.(goroutinePanic); ok {
			panic(gp) // a crash of another goroutine: no recover() of this goroutine can stop it
		}
		r = fr.i.classifyPanic(r, fr)
		if fr.i.lastPanicWhere == "" {
			fr.i.lastPanicWhere = fr.fn.String() + " " + fr.i.pos(fr)
		}
		fr.panicking = true
		fr.panic = r
		if fr.i.trace {
			fmt.Fprintf(os.Stderr, "Panicking: %T %v.\n", fr.panic, fr.panic)
		}
		fr.runDefers()
		fr.block = fr.fn.Recover
	}()

	in := fr.i
	for {
		nonPhis := executePhis(fr)
		for _, instr := range nonPhis {
			in.steps++
			if in.steps > in.stepLimit {
				panic(engineAbort{"budget", fmt.Sprintf("instruction budget %d exhausted in %s", in.stepLimit, fr.fn)})
			}
			fr.curInstr = instr
			in.curFrame = fr
			if in.trace {
				if v, ok := instr.(ssa.Value); ok {
					fmt.Fprintln(os.Stderr, "\t", v.Name(), "=", instr)
				} else {
					fmt.Fprintln(os.Stderr, "\t", instr)
				}
			}
			if visitInstr(fr, instr) == kReturn {
				return
			}
			// Inv: kNext (continue) or kJump (last instr)
		}
	}
}

// classifyPanic separates target-level panics (targetPanic) from engine bugs.
// Go runtime errors raised by the engine's own slice/pointer operations on
// target data are target runtime errors (as in go/ssa/interp); failed Go type
// assertions and other unexpected panics are engine faults and end the path
// as inconclusive.
func (in *interpreter) classifyPanic(r interface{}, fr *frame) interface{} {
	switch p := r.(type) {
	case targetPanic:
		return p
	case runtime.Error:
		msg := p.Error()
		if _, isTA := p.(*runtime.TypeAssertionError); isTA {
			panic(engineAbort{"unsupported", fmt.Sprintf("engine fault in %s at %s: %s", fr.fn, in.pos(fr), msg)})
		}
		if strings.Contains(msg, "index out of range") || strings.Contains(msg, "slice bounds out of range") ||
			strings.Contains(msg, "nil pointer dereference") || strings.Contains(msg, "divide by zero") ||
			strings.Contains(msg, "makeslice") || strings.Contains(msg, "nil map") {
			return targetPanic{iface{in.runtimeErrorString, msg}}
		}
		panic(engineAbort{"unsupported", fmt.Sprintf("engine fault in %s at %s: %s", fr.fn, in.pos(fr), msg)})
	case string:
		// engine-raised message (e.g. failed target type assertion)
		if strings.HasPrefix(p, "interface conversion:") || strings.HasPrefix(p, "value method") || strings.HasPrefix(p, "array length is greater") {
			return targetPanic{iface{in.runtimeErrorString, p}}
		}
		panic(engineAbort{"unsupported", fmt.Sprintf("engine fault in %s at %s: %s", fr.fn, in.pos(fr), p)})
	default:
		panic(engineAbort{"unsupported", fmt.Sprintf("engine fault in %s at %s: %v", fr.fn, in.pos(fr), p)})
	}
}

func (in *interpreter) pos(fr *frame) string {
	if fr == nil || fr.curInstr == nil {
		return "?"
	}
	p := fr.curInstr.Pos()
	if p == token.NoPos {
		return fr.fn.String()
	}
	return in.prog.Fset.Position(p).String()
}

// executePhis executes the phi-nodes at the start of the current
// block and returns the non-phi instructions.
func executePhis(fr *frame) []ssa.Instruction {
	firstNonPhi := -1
	for i, instr := range fr.block.Instrs {
		if _, ok := instr.(*ssa.Phi); !ok {
			firstNonPhi = i
			break
		}
	}
	// Inv: 0 <= firstNonPhi; every block contains a non-phi.

	nonPhis := fr.block.Instrs[firstNonPhi:]
	if fr.skipPhis {
		// phis were already assigned by tryMerge
		fr.skipPhis = false
		return nonPhis
	}
	if firstNonPhi > 0 {
		phis := fr.block.Instrs[:firstNonPhi]
		predIndex := slices.Index(fr.block.Preds, fr.prevBlock)
		fr.phitemps = fr.phitemps[:0]
		for _, phi := range phis {
			phi := phi.(*ssa.Phi)
			fr.phitemps = append(fr.phitemps, fr.get(phi.Edges[predIndex]))
		}
		for i, phi := range phis {
			fr.env[phi.(*ssa.Phi)] = fr.phitemps[i]
		}
	}
	return nonPhis
}

// doRecover implements the recover() built-in.
func doRecover(caller *frame) value {
	// recover() must be exactly one level beneath the deferred
	// function (two levels beneath the panicking function) to
	// have any effect.  Thus we ignore both "defer recover()" and
	// "defer f() -> g() -> recover()".
	if caller != nil && !caller.panicking &&
		caller.caller != nil && caller.caller.panicking {
		caller.caller.panicking = false
		p := caller.caller.panic
		caller.caller.panic = nil

		switch p := p.(type) {
		case targetPanic:
			// The target program explicitly called panic().
			return p.v
		default:
			panic(fmt.Sprintf("unexpected panic type %T in target call to recover()", p))
		}
	}
	return iface{}
}

// newInterpreter creates a worker-local interpreter over prog.
func newInterpreter(prog *ssa.Program, vsPkgPath string) *interpreter {
	i := &interpreter{
		prog:      prog,
		globals:   make(map[*ssa.Global]*value),
		sizes:     &types.StdSizes{WordSize: 8, MaxAlign: 8},
		inited:    make(map[*ssa.Package]bool),
		initFail:  make(map[string]string),
		stubs:     make(map[string]*ssa.Function),
		vsPkgPath: vsPkgPath,
		stepLimit: 1 << 40,
	}
	runtimePkg := i.prog.ImportedPackage("runtime")
	if runtimePkg == nil {
		panic("ssa.Program doesn't include runtime package")
	}
	i.runtimeErrorString = runtimePkg.Type("errorString").Object().Type()
	initReflect(i)
	for _, pkg := range i.prog.AllPackages() {
		for _, m := range pkg.Members {
			if v, ok := m.(*ssa.Global); ok {
				cell := zero(mustDeref(v.Type()))
				i.globals[v] = &cell
			}
		}
	}
	return i
}

// noInitPkgs: packages whose initialisers are never run (they need the real
// runtime / OS); their globals keep zero values and their functions are
// reached only through externals.
var noInitPkgs = map[string]bool{
	"runtime": true, "os": true, "syscall": true, "reflect": true, "sync": true, "sync/atomic": true,
	"unsafe": true, "testing": true, "log": true, "os/signal": true, "os/exec": true, "os/user": true,
	"runtime/debug": true, "runtime/pprof": true, "runtime/trace": true, "net/http": true, "plugin": true,
	"crypto/rand": true, "math/rand": true, "math/rand/v2": true, "flag": true, "expvar": true,
	"internal/poll": true, "internal/cpu": true, "internal/godebug": true, "internal/syscall/unix": true,
	"internal/testlog": true, "internal/bytealg": true, "internal/abi": true, "internal/reflectlite": true,
	"crypto/tls": true, "crypto/x509": true, "vendor/golang.org/x/net/http2/hpack": true,
}

func skipInit(path string) bool {
	if noInitPkgs[path] {
		return true
	}
	if strings.HasPrefix(path, "runtime/") || strings.HasPrefix(path, "internal/runtime/") ||
		strings.HasPrefix(path, "internal/syscall/") || strings.HasPrefix(path, "net/") ||
		strings.HasPrefix(path, "vendor/") || strings.HasPrefix(path, "google.golang.org/") ||
		strings.HasPrefix(path, "go.etcd.io/") || strings.HasPrefix(path, "github.com/gin-gonic/") ||
		strings.HasPrefix(path, "github.com/prometheus/") || strings.HasPrefix(path, "go.uber.org/") ||
		strings.HasPrefix(path, "golang.org/x/net") || strings.HasPrefix(path, "golang.org/x/sys") {
		return true
	}
	// third-party modules: only the ones whose package state the checked code relies on
	if first, _, ok := strings.Cut(path, "/"); ok && strings.Contains(first, ".") && !strings.HasPrefix(path, ModulePath) {
		for _, allow := range []string{"github.com/emirpasic/gods", "github.com/pingcap/errors", "github.com/pingcap/tidb", "github.com/pingcap/parser",
			"github.com/shopspring/decimal", "github.com/cznic/mathutil", "github.com/google/uuid", "github.com/pkg/errors", "github.com/hashicorp/go-version"} {
			if strings.HasPrefix(path, allow) {
				return false
			}
		}
		return true
	}
	return false
}

// ensureInit lazily runs the package initialiser of pkg (its own variable
// initialisers and init functions; imported packages are initialised by the
// same mechanism when first touched).  Initialisers run concretely, outside
// the undo trail, once per worker.
func (in *interpreter) ensureInit(pkg *ssa.Package) {
	if pkg == nil || in.inited[pkg] {
		return
	}
	in.inited[pkg] = true
	path := pkg.Pkg.Path()
	if skipInit(path) {
		return
	}
	initFn := pkg.Func("init")
	if initFn == nil || initFn.Blocks == nil {
		return
	}
	savedTrail, savedPath, savedSteps := in.trailOn, in.path, in.steps
	in.trailOn, in.path = false, nil
	defer func() {
		in.trailOn, in.path = savedTrail, savedPath
		in.steps = savedSteps
		if r := recover(); r != nil {
			msg := fmt.Sprint(r)
			if ea, ok := r.(engineAbort); ok {
				msg = ea.Error()
			}
			in.initFail[path] = msg
		}
	}()
	// Execute the body of the synthetic init directly (callSSA would recurse
	// into ensureInit).
	fr := &frame{i: in, fn: initFn}
	fr.env = make(map[ssa.Value]value, 64)
	fr.block = initFn.Blocks[0]
	fr.locals = make([]value, len(initFn.Locals))
	for k, l := range initFn.Locals {
		fr.locals[k] = zero(mustDeref(l.Type()))
		fr.env[l] = &fr.locals[k]
	}
	for fr.block != nil {
		runFrame(fr)
	}
}

// decision-site profile (VERIF_FORKPROF=1): how often each source position asks for a symbolic decision.
var (
	forkProfOn = os.Getenv("VERIF_FORKPROF") != ""
	forkProfMu sync.Mutex
	forkProf   = map[string]int{}
)

func (in *interpreter) profDecision(kind string) {
	if !forkProfOn || in.curFrame == nil || in.curFrame.curInstr == nil {
		return
	}
	fr := in.curFrame
	key := kind + " " + fr.fn.String() + " " + in.prog.Fset.Position(fr.curInstr.Pos()).String()
	forkProfMu.Lock()
	forkProf[key]++
	forkProfMu.Unlock()
}

// DumpForkProfile prints the decision-site profile to stderr.
func DumpForkProfile() {
	if !forkProfOn {
		return
	}
	type kv struct {
		k string
		n int
	}
	var l []kv
	for k, n := range forkProf {
		l = append(l, kv{k, n})
	}
	sort.Slice(l, func(i, j int) bool { return l[i].n > l[j].n })
	for i, e := range l {
		if i >= 40 {
			break
		}
		fmt.Fprintf(os.Stderr, "FORKPROF %8d %s\n", e.n, e.k)
	}
}
