package gosym

// Persistent SMT solver process (z3 -in / z3-new -in / cvc5 --incremental), text protocol.

import (
	"bufio"
	"fmt"
	"io"
	"os"
	"os/exec"
	"regexp"
	"strconv"
	"strings"
	"time"
)

type SatResult int

const (
	Unsat SatResult = iota
	Sat
	Unknown
)

func (r SatResult) String() string { return [...]string{"unsat", "sat", "unknown"}[r] }

type Solver struct {
	name    string
	cmd     *exec.Cmd
	in      io.WriteCloser
	bw      *bufio.Writer
	out     *bufio.Reader
	log     io.Writer
	Queries int
	Time    time.Duration
	NSat    int
	NUnsat  int
	NUnk    int
	Errors  []string
	timeout int // ms
	seq     int
}

func NewSolver(kind string, timeoutMs int, logw io.Writer) (*Solver, error) {
	var cmd *exec.Cmd
	switch kind {
	case "z3":
		cmd = exec.Command("z3", "-in")
	case "z3-new":
		cmd = exec.Command("z3-new", "-in")
	case "cvc5":
		cmd = exec.Command("cvc5", "--incremental", "--lang=smt2", "--produce-models", fmt.Sprintf("--tlimit-per=%d", timeoutMs))
	default:
		return nil, fmt.Errorf("unknown solver %q", kind)
	}
	in, err := cmd.StdinPipe()
	if err != nil {
		return nil, err
	}
	out, err := cmd.StdoutPipe()
	if err != nil {
		return nil, err
	}
	cmd.Stderr = os.Stderr
	if err := cmd.Start(); err != nil {
		return nil, err
	}
	s := &Solver{name: kind, cmd: cmd, in: in, bw: bufio.NewWriterSize(in, 1<<16), out: bufio.NewReaderSize(out, 1<<16), log: logw, timeout: timeoutMs}
	if kind == "cvc5" {
		s.send("(set-logic QF_BV)\n")
	} else {
		s.send(fmt.Sprintf("(set-option :timeout %d)\n", timeoutMs))
	}
	return s, nil
}

func (s *Solver) send(text string) {
	if s.log != nil {
		io.WriteString(s.log, text)
	}
	s.bw.WriteString(text)
}

func (s *Solver) Close() {
	if s == nil || s.cmd == nil {
		return
	}
	s.bw.Flush()
	s.in.Close()
	done := make(chan struct{})
	go func() { s.cmd.Wait(); close(done) }()
	select {
	case <-done:
	case <-time.After(2 * time.Second):
		s.cmd.Process.Kill()
	}
	s.cmd = nil
}

// sync sends an echo marker and collects all output lines up to it.
func (s *Solver) sync() []string {
	s.seq++
	marker := fmt.Sprintf("@sync%d", s.seq)
	s.send("(echo \"" + marker + "\")\n")
	s.bw.Flush()
	var lines []string
	for {
		line, err := s.out.ReadString('\n')
		if err != nil {
			s.Errors = append(s.Errors, "solver died: "+err.Error())
			return lines
		}
		line = strings.TrimRight(line, "\r\n")
		if strings.Trim(line, "\"") == marker {
			return lines
		}
		if line != "" {
			lines = append(lines, line)
		}
	}
}

func (s *Solver) Push() { s.send("(push 1)\n") }
func (s *Solver) Pop()  { s.send("(pop 1)\n") }

func (s *Solver) Declare(name string, w uint8) {
	s.send(fmt.Sprintf("(declare-const %s %s)\n", name, sortStr(w)))
}

func (s *Solver) Raw(text string) { s.send(text) }

func (s *Solver) Assert(expr string) { s.send("(assert " + expr + ")\n") }

// Check runs check-sat.  Any (error line makes the answer Unknown.
func (s *Solver) Check() SatResult {
	t0 := time.Now()
	s.send("(check-sat)\n")
	lines := s.sync()
	s.Time += time.Since(t0)
	s.Queries++
	res := Unknown
	bad := false
	for _, l := range lines {
		switch {
		case l == "sat":
			res = Sat
		case l == "unsat":
			res = Unsat
		case l == "unknown":
			res = Unknown
		case strings.Contains(l, "(error"):
			bad = true
			if len(s.Errors) < 20 {
				s.Errors = append(s.Errors, l)
			}
		}
	}
	if bad {
		res = Unknown
	}
	switch res {
	case Sat:
		s.NSat++
	case Unsat:
		s.NUnsat++
	default:
		s.NUnk++
	}
	return res
}

var valueRe = regexp.MustCompile(`\(\s*([^\s()]+)\s+(#x[0-9a-fA-F]+|#b[01]+|true|false)\s*\)`)

// Values fetches the values of the named constants after a sat answer.
func (s *Solver) Values(names []string) (Model, bool) {
	m := make(Model, len(names))
	if len(names) == 0 {
		return m, true
	}
	// chunk to keep lines reasonable
	for i := 0; i < len(names); i += 200 {
		j := i + 200
		if j > len(names) {
			j = len(names)
		}
		s.send("(get-value (" + strings.Join(names[i:j], " ") + "))\n")
		lines := s.sync()
		txt := strings.Join(lines, " ")
		if strings.Contains(txt, "(error") {
			s.Errors = append(s.Errors, txt)
			return nil, false
		}
		for _, mm := range valueRe.FindAllStringSubmatch(txt, -1) {
			var v uint64
			switch {
			case mm[2] == "true":
				v = 1
			case mm[2] == "false":
				v = 0
			case strings.HasPrefix(mm[2], "#x"):
				v, _ = strconv.ParseUint(mm[2][2:], 16, 64)
			default:
				v, _ = strconv.ParseUint(mm[2][2:], 2, 64)
			}
			m[mm[1]] = v
		}
	}
	if len(m) != len(names) {
		s.Errors = append(s.Errors, fmt.Sprintf("get-value returned %d of %d values", len(m), len(names)))
		return nil, false
	}
	return m, true
}
