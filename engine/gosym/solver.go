package gosym

// Persistent SMT solver process (z3 -in / z3-new -in / cvc5 --incremental), text protocol.

import (
	"bufio"
	"context"
	"fmt"
	"io"
	"os"
	"os/exec"
	"regexp"
	"strconv"
	"strings"
	"sync/atomic"
	"time"
)

type SatResult int

const (
	Unsat SatResult = iota
	Sat
	Unknown
)

func (r SatResult) String() string { return [...]string{"unsat", "sat", "unknown"}[r] }

type Solver struct {
	name    string
	cmd     *exec.Cmd
	in      io.WriteCloser
	bw      *bufio.Writer
	out     *bufio.Reader
	log     io.Writer
	Queries int
	Time    time.Duration
	NSat    int
	NUnsat  int
	NUnk    int
	Errors  []string
	timeout int // ms
	seq     int
	Gen     int // incremented by Restart
	rec     strings.Builder

	Died          int // times the z3 process had to be replaced
	Fallbacks     int // queries handed to the cvc5 integer-encoding fallback
	FallbackUnsat int
	FallbackTime  time.Duration
}

// Restart replaces the solver process (after a timeout z3 4.8.12 stays in a
// "canceled" state and rejects the following commands).
func (s *Solver) Restart() error {
	if s.cmd != nil {
		s.cmd.Process.Kill()
		s.cmd.Wait()
	}
	n, err := NewSolver(s.name, s.timeout, s.log)
	if err != nil {
		return err
	}
	s.cmd, s.in, s.bw, s.out = n.cmd, n.in, n.bw, n.out
	s.Gen++
	return nil
}

func NewSolver(kind string, timeoutMs int, logw io.Writer) (*Solver, error) {
	var cmd *exec.Cmd
	switch kind {
	case "z3":
		cmd = exec.Command("z3", "-in")
	case "z3-new":
		cmd = exec.Command("z3-new", "-in")
	case "cvc5":
		cmd = exec.Command("cvc5", "--incremental", "--lang=smt2", "--produce-models", fmt.Sprintf("--tlimit-per=%d", timeoutMs))
	default:
		return nil, fmt.Errorf("unknown solver %q", kind)
	}
	in, err := cmd.StdinPipe()
	if err != nil {
		return nil, err
	}
	out, err := cmd.StdoutPipe()
	if err != nil {
		return nil, err
	}
	cmd.Stderr = os.Stderr
	if err := cmd.Start(); err != nil {
		return nil, err
	}
	s := &Solver{name: kind, cmd: cmd, in: in, bw: bufio.NewWriterSize(in, 1<<16), out: bufio.NewReaderSize(out, 1<<16), log: logw, timeout: timeoutMs}
	if kind == "cvc5" {
		s.send("(set-logic QF_BV)\n")
	} else {
		s.send(fmt.Sprintf("(set-option :timeout %d)\n", timeoutMs))
	}
	return s, nil
}

func (s *Solver) send(text string) {
	if s.log != nil {
		io.WriteString(s.log, text)
	}
	s.rec.WriteString(text)
	s.bw.WriteString(text)
}

// context returns the recorded transcript of the current path without the
// query/echo commands (a replayable assertion context).
func (s *Solver) context() string {
	var sb strings.Builder
	for _, l := range strings.Split(s.rec.String(), "\n") {
		if l == "" || strings.HasPrefix(l, "(echo") || strings.HasPrefix(l, "(get-value") || strings.HasPrefix(l, "(check-sat") || strings.HasPrefix(l, "(set-option") {
			continue
		}
		sb.WriteString(l)
		sb.WriteByte('\n')
	}
	return sb.String()
}

// Fallback decides the pending query (the transcript's current context) with
// cvc5 in integer-encoding mode, which handles the adder/comparison-heavy
// queries on which bit-blasting times out.  One-shot process.
func (s *Solver) Fallback(names []string, timeoutMs int) (SatResult, Model) {
	t0 := time.Now()
	defer func() { s.FallbackTime += time.Since(t0); s.Fallbacks++ }()
	script := "(set-logic QF_BV)\n(set-option :produce-models true)\n" + s.context() + "(check-sat)\n"
	f, err := os.CreateTemp("", "verif-fb-*.smt2")
	if err != nil {
		return Unknown, nil
	}
	defer os.Remove(f.Name())
	f.WriteString(script)
	f.Close()
	run := func(withModel bool) (string, error) {
		path := f.Name()
		if withModel && len(names) > 0 {
			g, err := os.CreateTemp("", "verif-fb-*.smt2")
			if err != nil {
				return "", err
			}
			defer os.Remove(g.Name())
			g.WriteString(script)
			for i := 0; i < len(names); i += 200 {
				j := i + 200
				if j > len(names) {
					j = len(names)
				}
				g.WriteString("(get-value (" + strings.Join(names[i:j], " ") + "))\n")
			}
			g.Close()
			path = g.Name()
		}
		ctx, cancel := context.WithTimeout(context.Background(), time.Duration(timeoutMs+3000)*time.Millisecond)
		defer cancel()
		out, err := exec.CommandContext(ctx, "cvc5", "--incremental", "--solve-bv-as-int=sum", fmt.Sprintf("--tlimit-per=%d", timeoutMs), path).CombinedOutput()
		if ctx.Err() != nil {
			return "unknown", ctx.Err()
		}
		return string(out), err
	}
	out, _ := run(false)
	lines := strings.Fields(out)
	last := ""
	for _, l := range lines {
		if l == "sat" || l == "unsat" || l == "unknown" {
			last = l
		}
	}
	if strings.Contains(out, "(error") || strings.Contains(out, "rror") {
		return Unknown, nil
	}
	switch last {
	case "unsat":
		s.FallbackUnsat++
		return Unsat, nil
	case "sat":
		out2, _ := run(true)
		m := make(Model, len(names))
		for _, mm := range valueRe.FindAllStringSubmatch(out2, -1) {
			var v uint64
			switch {
			case mm[2] == "true":
				v = 1
			case mm[2] == "false":
				v = 0
			case strings.HasPrefix(mm[2], "#x"):
				v, _ = strconv.ParseUint(mm[2][2:], 16, 64)
			default:
				v, _ = strconv.ParseUint(mm[2][2:], 2, 64)
			}
			m[mm[1]] = v
		}
		if len(m) != len(names) {
			return Unknown, nil
		}
		return Sat, m
	}
	return Unknown, nil
}

// RestartWithContext replaces the solver process and replays the current path's context.
func (s *Solver) RestartWithContext() error {
	ctx := s.context()
	if err := s.Restart(); err != nil {
		return err
	}
	s.Gen-- // the path-level push is replayed, the path can go on
	s.rec.Reset()
	s.send(ctx)
	return nil
}

// slowDir ($VERIF_SLOWDIR): directory receiving the SMT-LIB transcript of the
// current path whenever a query takes longer than 2 s or answers unknown.
var slowDir = os.Getenv("VERIF_SLOWDIR")
var slowSeq int32

// BeginPath resets the per-path transcript.
func (s *Solver) BeginPath() { s.rec.Reset() }

func (s *Solver) dumpSlow(d time.Duration, res SatResult) {
	if slowDir == "" {
		return
	}
	n := atomic.AddInt32(&slowSeq, 1)
	if n > 40 {
		return
	}
	os.WriteFile(fmt.Sprintf("%s/slow-%03d-%s-%dms.smt2", slowDir, n, res, d.Milliseconds()), []byte(s.rec.String()), 0o644)
}

func (s *Solver) Close() {
	if s == nil || s.cmd == nil {
		return
	}
	s.bw.Flush()
	s.in.Close()
	done := make(chan struct{})
	go func() { s.cmd.Wait(); close(done) }()
	select {
	case <-done:
	case <-time.After(2 * time.Second):
		s.cmd.Process.Kill()
	}
	s.cmd = nil
}

// sync sends an echo marker and collects all output lines up to it.
func (s *Solver) sync() []string {
	s.seq++
	marker := fmt.Sprintf("@sync%d", s.seq)
	s.send("(echo \"" + marker + "\")\n")
	s.bw.Flush()
	var lines []string
	for {
		line, err := s.out.ReadString('\n')
		if err != nil {
			// the process ended (killed by the watchdog or crashed): the pending
			// query is unknown; the caller restarts the solver
			s.Died++
			return lines
		}
		line = strings.TrimRight(line, "\r\n")
		if strings.Trim(line, "\"") == marker {
			return lines
		}
		if line != "" {
			lines = append(lines, line)
		}
	}
}

func (s *Solver) Push() { s.send("(push 1)\n") }
func (s *Solver) Pop()  { s.send("(pop 1)\n") }

func (s *Solver) Declare(name string, w uint8) {
	s.send(fmt.Sprintf("(declare-const %s %s)\n", name, sortStr(w)))
}

func (s *Solver) Raw(text string) { s.send(text) }

func (s *Solver) Assert(expr string) { s.send("(assert " + expr + ")\n") }

// Check runs check-sat.  Any (error line makes the answer Unknown.
func (s *Solver) Check() SatResult {
	t0 := time.Now()
	s.send("(check-sat)\n")
	// watchdog: z3 sometimes overruns its soft timeout (preprocessing of very
	// large terms); kill it so that the query is reported unknown
	proc := s.cmd.Process
	wd := time.AfterFunc(time.Duration(s.timeout+8000)*time.Millisecond, func() { proc.Kill() })
	lines := s.sync()
	wd.Stop()
	d := time.Since(t0)
	s.Time += d
	s.Queries++
	defer func() {
		if d > 2*time.Second {
			s.dumpSlow(d, Unknown)
		}
	}()
	res := Unknown
	bad := false
	for _, l := range lines {
		switch {
		case l == "sat":
			res = Sat
		case l == "unsat":
			res = Unsat
		case l == "unknown":
			res = Unknown
		case strings.Contains(l, "(error"):
			bad = true
			if len(s.Errors) < 20 {
				s.Errors = append(s.Errors, l)
			}
		}
	}
	if bad {
		res = Unknown
	}
	switch res {
	case Sat:
		s.NSat++
	case Unsat:
		s.NUnsat++
	default:
		s.NUnk++
	}
	return res
}

var valueRe = regexp.MustCompile(`\(\s*([^\s()]+)\s+(#x[0-9a-fA-F]+|#b[01]+|true|false)\s*\)`)

// Values fetches the values of the named constants after a sat answer.
func (s *Solver) Values(names []string) (Model, bool) {
	m := make(Model, len(names))
	if len(names) == 0 {
		return m, true
	}
	// chunk to keep lines reasonable
	for i := 0; i < len(names); i += 200 {
		j := i + 200
		if j > len(names) {
			j = len(names)
		}
		s.send("(get-value (" + strings.Join(names[i:j], " ") + "))\n")
		lines := s.sync()
		txt := strings.Join(lines, " ")
		if strings.Contains(txt, "(error") {
			s.Errors = append(s.Errors, txt)
			return nil, false
		}
		for _, mm := range valueRe.FindAllStringSubmatch(txt, -1) {
			var v uint64
			switch {
			case mm[2] == "true":
				v = 1
			case mm[2] == "false":
				v = 0
			case strings.HasPrefix(mm[2], "#x"):
				v, _ = strconv.ParseUint(mm[2][2:], 16, 64)
			default:
				v, _ = strconv.ParseUint(mm[2][2:], 2, 64)
			}
			m[mm[1]] = v
		}
	}
	if len(m) != len(names) {
		s.Errors = append(s.Errors, fmt.Sprintf("get-value returned %d of %d values", len(m), len(names)))
		return nil, false
	}
	return m, true
}
