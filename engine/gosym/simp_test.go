package gosym

// Soundness of the term-layer simplifications (constant folding, interval
// rules, q*c+r division, x+k comparisons): random expression recipes are
// evaluated directly and through the simplifying constructors; the two must
// agree for every assignment that respects the declared variable ranges.

import (
	"math/rand"
	"testing"
)

type recipe struct {
	kind int // 0 var, 1 const, 2 bin, 3 cmp->ite, 4 zext-trunc
	op   Op
	a, b *recipe
	v    int
	k    uint64
}

func genRecipe(rng *rand.Rand, depth int, nvars int) *recipe {
	if depth == 0 || rng.Intn(4) == 0 {
		if rng.Intn(3) == 0 {
			ks := []uint64{0, 1, 2, 3, 4, 5, 7, 8, 10, 16, 100, 255, 1 << 20, ^uint64(0), ^uint64(0) - 2, ^uint64(0) - 6, 1 << 63}
			return &recipe{kind: 1, k: ks[rng.Intn(len(ks))]}
		}
		return &recipe{kind: 0, v: rng.Intn(nvars)}
	}
	switch rng.Intn(6) {
	case 0, 1, 2:
		ops := []Op{OpAdd, OpSub, OpMul, OpUdiv, OpUrem, OpSdiv, OpSrem, OpBand, OpBor, OpBxor, OpShl, OpLshr, OpAshr, OpAdd, OpAdd, OpMul, OpUrem, OpSrem}
		return &recipe{kind: 2, op: ops[rng.Intn(len(ops))], a: genRecipe(rng, depth-1, nvars), b: genRecipe(rng, depth-1, nvars)}
	case 3, 4:
		cmps := []Op{OpUlt, OpUle, OpSlt, OpSle, OpEq}
		return &recipe{kind: 3, op: cmps[rng.Intn(len(cmps))], a: genRecipe(rng, depth-1, nvars), b: genRecipe(rng, depth-1, nvars)}
	default:
		return &recipe{kind: 4, a: genRecipe(rng, depth-1, nvars)}
	}
}

func (r *recipe) eval(vals []uint64) uint64 {
	switch r.kind {
	case 0:
		return vals[r.v]
	case 1:
		return r.k
	case 2:
		x, y := r.a.eval(vals), r.b.eval(vals)
		if (r.op == OpUdiv || r.op == OpUrem || r.op == OpSdiv || r.op == OpSrem) && y == 0 {
			y = 1
		}
		v, _ := foldBin(r.op, 64, x, y)
		return v
	case 3:
		x, y := r.a.eval(vals), r.b.eval(vals)
		var c bool
		switch r.op {
		case OpUlt:
			c = x < y
		case OpUle:
			c = x <= y
		case OpSlt:
			c = int64(x) < int64(y)
		case OpSle:
			c = int64(x) <= int64(y)
		case OpEq:
			c = x == y
		}
		if c {
			return x
		}
		return y + 1
	default:
		return r.a.eval(vals) & 0xffff
	}
}

func (r *recipe) build(tt *TermTable, vars []*Term) *Term {
	switch r.kind {
	case 0:
		return vars[r.v]
	case 1:
		return tt.Const(64, r.k)
	case 2:
		x, y := r.a.build(tt, vars), r.b.build(tt, vars)
		if r.op == OpUdiv || r.op == OpUrem || r.op == OpSdiv || r.op == OpSrem {
			y = tt.Ite(tt.Eq(y, tt.Const(64, 0)), tt.Const(64, 1), y)
		}
		return tt.Bin(r.op, x, y)
	case 3:
		x, y := r.a.build(tt, vars), r.b.build(tt, vars)
		var c *Term
		if r.op == OpEq {
			c = tt.Eq(x, y)
		} else {
			c = tt.cmp(r.op, x, y)
		}
		return tt.Ite(c, x, tt.Bin(OpAdd, y, tt.Const(64, 1)))
	default:
		return tt.Zext(tt.Extract(r.a.build(tt, vars), 15, 0), 64)
	}
}

func TestSimplifierSoundness(t *testing.T) {
	rng := rand.New(rand.NewSource(7))
	n := 0
	for iter := 0; iter < 6000; iter++ {
		tt := NewTermTable()
		nvars := 3
		lo := make([]uint64, nvars)
		hi := make([]uint64, nvars)
		vars := make([]*Term, nvars)
		for i := range vars {
			switch rng.Intn(4) {
			case 0:
				lo[i], hi[i] = 0, ^uint64(0)
				vars[i] = tt.Var(64, string(rune('a'+i)))
			case 1:
				lo[i], hi[i] = uint64(rng.Intn(3)), uint64(3+rng.Intn(60))
				vars[i] = tt.VarRange(64, string(rune('a'+i)), lo[i], hi[i])
			case 2:
				lo[i], hi[i] = uint64(rng.Intn(2)), 1<<36
				vars[i] = tt.VarRange(64, string(rune('a'+i)), lo[i], hi[i])
			default:
				lo[i], hi[i] = 1<<62, 1<<63+5
				vars[i] = tt.VarRange(64, string(rune('a'+i)), lo[i], hi[i])
			}
		}
		r := genRecipe(rng, 4, nvars)
		term := r.build(tt, vars)
		for k := 0; k < 12; k++ {
			vals := make([]uint64, nvars)
			m := Model{}
			for i := range vals {
				switch rng.Intn(4) {
				case 0:
					vals[i] = lo[i]
				case 1:
					vals[i] = hi[i]
				default:
					span := hi[i] - lo[i]
					if span == ^uint64(0) {
						vals[i] = rng.Uint64()
					} else {
						vals[i] = lo[i] + rng.Uint64()%(span+1)
					}
				}
				m[string(rune('a'+i))] = vals[i]
			}
			want := r.eval(vals)
			got := term.Eval(m, map[*Term]uint64{})
			if want != got {
				t.Fatalf("iter %d: simplified term %s evaluates to %#x, recipe gives %#x (vals %#x, ranges %v..%v)", iter, term, got, want, vals, lo, hi)
			}
			if got < term.Lo || got > term.Hi {
				t.Fatalf("iter %d: value %#x outside the computed interval [%#x,%#x] of %s (vals %#x)", iter, got, term.Lo, term.Hi, term, vals)
			}
			n++
		}
	}
	t.Logf("%d evaluations agree", n)
}
