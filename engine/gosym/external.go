package gosym

// Emulated functions: functions without Go bodies (assembly, linkname,
// runtime), functions built on unsafe/reflect, and the environment (time,
// randomness, process exit, logging sinks).

import (
	"fmt"
	"go/types"
	"math"
	"strings"
	"unsafe"

	"golang.org/x/tools/go/ssa"
)

type externalFn func(fr *frame, args []value) value

// Key strings are from Function.String() (for generic instantiations, of the origin).
var externals = make(map[string]externalFn)

func nop(fr *frame, args []value) value { return nil }

func init() {
	for k, v := range map[string]externalFn{
		// reflect (fake, from go/ssa/interp)
		"(reflect.Value).Bool":         ext۰reflect۰Value۰Bool,
		"(reflect.Value).CanAddr":      ext۰reflect۰Value۰CanAddr,
		"(reflect.Value).CanInterface": ext۰reflect۰Value۰CanInterface,
		"(reflect.Value).Elem":         ext۰reflect۰Value۰Elem,
		"(reflect.Value).Field":        ext۰reflect۰Value۰Field,
		"(reflect.Value).Float":        ext۰reflect۰Value۰Float,
		"(reflect.Value).Index":        ext۰reflect۰Value۰Index,
		"(reflect.Value).Int":          ext۰reflect۰Value۰Int,
		"(reflect.Value).Interface":    ext۰reflect۰Value۰Interface,
		"(reflect.Value).IsNil":        ext۰reflect۰Value۰IsNil,
		"(reflect.Value).IsValid":      ext۰reflect۰Value۰IsValid,
		"(reflect.Value).Kind":         ext۰reflect۰Value۰Kind,
		"(reflect.Value).Len":          ext۰reflect۰Value۰Len,
		"(reflect.Value).NumField":     ext۰reflect۰Value۰NumField,
		"(reflect.Value).NumMethod":    ext۰reflect۰Value۰NumMethod,
		"(reflect.Value).Pointer":      ext۰reflect۰Value۰Pointer,
		"(reflect.Value).Set":          ext۰reflect۰Value۰Set,
		"(reflect.Value).String":       ext۰reflect۰Value۰String,
		"(reflect.Value).Type":         ext۰reflect۰Value۰Type,
		"(reflect.Value).Uint":         ext۰reflect۰Value۰Uint,
		"(reflect.error).Error":        ext۰reflect۰error۰Error,
		"(reflect.rtype).Bits":         ext۰reflect۰rtype۰Bits,
		"(reflect.rtype).Elem":         ext۰reflect۰rtype۰Elem,
		"(reflect.rtype).Field":        ext۰reflect۰rtype۰Field,
		"(reflect.rtype).In":           ext۰reflect۰rtype۰In,
		"(reflect.rtype).Kind":         ext۰reflect۰rtype۰Kind,
		"(reflect.rtype).NumField":     ext۰reflect۰rtype۰NumField,
		"(reflect.rtype).NumIn":        ext۰reflect۰rtype۰NumIn,
		"(reflect.rtype).NumMethod":    ext۰reflect۰rtype۰NumMethod,
		"(reflect.rtype).NumOut":       ext۰reflect۰rtype۰NumOut,
		"(reflect.rtype).Out":          ext۰reflect۰rtype۰Out,
		"(reflect.rtype).Size":         ext۰reflect۰rtype۰Size,
		"(reflect.rtype).String":       ext۰reflect۰rtype۰String,
		"reflect.New":                  ext۰reflect۰New,
		"internal/reflectlite.TypeOf":  ext۰reflect۰TypeOf,
		"reflect.SliceOf":              ext۰reflect۰SliceOf,
		"reflect.TypeOf":               ext۰reflect۰TypeOf,
		"reflect.ValueOf":              ext۰reflect۰ValueOf,
		"reflect.Zero":                 ext۰reflect۰Zero,

		// math
		"math.Float32bits":     func(fr *frame, a []value) value { return math.Float32bits(a[0].(float32)) },
		"math.Float32frombits": func(fr *frame, a []value) value { return math.Float32frombits(cu32(a[0])) },
		"math.Float64bits":     func(fr *frame, a []value) value { return math.Float64bits(a[0].(float64)) },
		"math.Float64frombits": func(fr *frame, a []value) value { return math.Float64frombits(cu64(a[0])) },
		"math.Abs":             func(fr *frame, a []value) value { return math.Abs(a[0].(float64)) },
		"math.Floor":           func(fr *frame, a []value) value { return math.Floor(a[0].(float64)) },
		"math.Ceil":            func(fr *frame, a []value) value { return math.Ceil(a[0].(float64)) },
		"math.Trunc":           func(fr *frame, a []value) value { return math.Trunc(a[0].(float64)) },
		"math.Sqrt":            func(fr *frame, a []value) value { return math.Sqrt(a[0].(float64)) },
		"math.Log":             func(fr *frame, a []value) value { return math.Log(a[0].(float64)) },
		"math.Exp":             func(fr *frame, a []value) value { return math.Exp(a[0].(float64)) },
		"math.Pow":             func(fr *frame, a []value) value { return math.Pow(a[0].(float64), a[1].(float64)) },
		"math.Mod":             func(fr *frame, a []value) value { return math.Mod(a[0].(float64), a[1].(float64)) },
		"math.Inf":             func(fr *frame, a []value) value { return math.Inf(a[0].(int)) },
		"math.NaN":             func(fr *frame, a []value) value { return math.NaN() },
		"math.IsNaN":           func(fr *frame, a []value) value { return math.IsNaN(a[0].(float64)) },
		"math.IsInf":           func(fr *frame, a []value) value { return math.IsInf(a[0].(float64), a[1].(int)) },
		"math.Copysign":        func(fr *frame, a []value) value { return math.Copysign(a[0].(float64), a[1].(float64)) },
		"math.Ldexp":           func(fr *frame, a []value) value { return math.Ldexp(a[0].(float64), a[1].(int)) },
		"math.Min":             func(fr *frame, a []value) value { return math.Min(a[0].(float64), a[1].(float64)) },
		"math.Max":             func(fr *frame, a []value) value { return math.Max(a[0].(float64), a[1].(float64)) },
		"math.Round":           func(fr *frame, a []value) value { return math.Round(a[0].(float64)) },
		"math.Log10":           func(fr *frame, a []value) value { return math.Log10(a[0].(float64)) },
		"math.Log2":            func(fr *frame, a []value) value { return math.Log2(a[0].(float64)) },

		// internal/bytealg
		"internal/bytealg.IndexByte":       extIndexByte,
		"internal/bytealg.IndexByteString": extIndexByte,
		"internal/bytealg.Count":           extCountByte,
		"internal/bytealg.CountString":     extCountByte,
		"internal/bytealg.Equal":           extBytesEqual,
		"internal/bytealg.Compare":         extBytesCompare,
		"internal/bytealg.MakeNoZero":      func(fr *frame, a []value) value { return makeByteSlice(int(fr.i.concreteInt(types.Typ[types.Int], a[0]))) },
		"internal/bytealg.Index":           extIndexSeq,
		"internal/bytealg.IndexString":     extIndexSeq,
		"bytes.Equal":                      extBytesEqual,
		"bytes.Compare":                    extBytesCompare,
		"bytes.IndexByte":                  extIndexByte,
		"strings.IndexByte":                extIndexByte,
		"internal/stringslite.IndexByte":   extIndexByte,
		"bytes.Index":                      extIndexSeq,
		"strings.Index":                    extIndexSeq,
		"internal/stringslite.Index":       extIndexSeq,
		"runtime.cmpstring":                extBytesCompare,
		"strings.Compare":                  extBytesCompare,

		// strings.Builder (unsafe inside)
		"(*strings.Builder).copyCheck": nop,
		"(*strings.Builder).String":    extBuilderString,
		"(*strings.Builder).grow":      extBuilderGrow,
		"strings.Clone":                func(fr *frame, a []value) value { return a[0] },
		"internal/stringslite.Clone":   func(fr *frame, a []value) value { return a[0] },
		"strconv.cloneString":          func(fr *frame, a []value) value { return a[0] },
		// util/hack: zero-copy conversions through unsafe headers, modelled as conversions
		"github.com/XiaoMi/Gaea/util/hack.String": func(fr *frame, a []value) value {
			b, _ := a[0].([]value)
			r := make([]value, len(b))
			copy(r, b)
			return mkstr(r)
		},
		"github.com/XiaoMi/Gaea/util/hack.Slice": func(fr *frame, a []value) value {
			if strLen(a[0]) == 0 {
				return []value(nil)
			}
			b := strBytes(a[0])
			r := make([]value, len(b))
			copy(r, b)
			return r
		},
		"unique.Make":                  nil,

		// runtime
		"runtime.GC":             nop,
		"runtime.Gosched":        func(fr *frame, a []value) value { fr.i.needSched().gosched(); return nil },
		"runtime.KeepAlive":      nop,
		"runtime.SetFinalizer":   nop,
		"runtime.GOMAXPROCS":     func(fr *frame, a []value) value { return 4 },
		"runtime.NumCPU":         func(fr *frame, a []value) value { return 4 },
		"runtime.NumGoroutine":   func(fr *frame, a []value) value { return 1 },
		"runtime.Caller":         func(fr *frame, a []value) value { return tuple{uintptr(0), "file.go", 1, false} },
		"runtime.Callers":        func(fr *frame, a []value) value { return 0 },
		"runtime.Stack":          func(fr *frame, a []value) value { return 0 },
		"runtime/debug.Stack":    func(fr *frame, a []value) value { return []value(nil) },
		"runtime/debug.PrintStack": nop,
		"runtime.Goexit":         func(fr *frame, a []value) value { unsupported("runtime.Goexit"); return nil },
		"os.Exit":                func(fr *frame, a []value) value { panic(engineAbort{"fatal", "os.Exit called"}) },
		"os.Getenv":              func(fr *frame, a []value) value { return "" },
		"os.LookupEnv":           func(fr *frame, a []value) value { return tuple{"", false} },
		"os.Getpid":              func(fr *frame, a []value) value { return 4242 },
		"os.Hostname":            func(fr *frame, a []value) value { return tuple{"verifhost", iface{}} },
		"time.Sleep":             func(fr *frame, a []value) value { fr.i.needSched().gosched(); return nil },
		"time.now":               extTimeNowRaw,
		"time.runtimeNano":       func(fr *frame, a []value) value { return int64(1700000000000000000) },
		"time.initLocal":         func(fr *frame, a []value) value { return nil }, // the local zone stays the zero Location: UTC
		"runtime.nanotime":       func(fr *frame, a []value) value { return int64(1700000000000000000) },

		// sync
		"(*sync.Mutex).Lock":       extMutexLock,
		"(*sync.Mutex).TryLock":    extMutexTryLock,
		"(*sync.Mutex).Unlock":     extMutexUnlock,
		"(*sync.RWMutex).Lock":     extRWLock,
		"(*sync.RWMutex).Unlock":   extRWUnlock,
		"(*sync.RWMutex).RLock":    extRWRLock,
		"(*sync.RWMutex).RUnlock":  extRWRUnlock,
		"(*sync.WaitGroup).Add":    extWGAdd,
		"(*sync.WaitGroup).Done":   extWGDone,
		"(*sync.WaitGroup).Wait":   extWGWait,
		"(*sync.Pool).Get":         extPoolGet,
		"(*sync.Pool).Put":         nop,
		"sync.runtime_registerPoolCleanup": nop,
		"sync.fatal":               func(fr *frame, a []value) value { panic(engineAbort{"fatal", "sync: " + fmt.Sprint(a[0])}) },
		"sync.throw":               func(fr *frame, a []value) value { panic(engineAbort{"fatal", "sync: " + fmt.Sprint(a[0])}) },

		// sync/atomic
		"sync/atomic.LoadInt32":   atomicLoad,
		"sync/atomic.LoadInt64":   atomicLoad,
		"sync/atomic.LoadUint32":  atomicLoad,
		"sync/atomic.LoadUint64":  atomicLoad,
		"sync/atomic.LoadUintptr": atomicLoad,
		"sync/atomic.LoadPointer": atomicLoad,
		"sync/atomic.StoreInt32":   atomicStore,
		"sync/atomic.StoreInt64":   atomicStore,
		"sync/atomic.StoreUint32":  atomicStore,
		"sync/atomic.StoreUint64":  atomicStore,
		"sync/atomic.StoreUintptr": atomicStore,
		"sync/atomic.StorePointer": atomicStore,
		"sync/atomic.SwapInt32":   atomicSwap,
		"sync/atomic.SwapInt64":   atomicSwap,
		"sync/atomic.SwapUint32":  atomicSwap,
		"sync/atomic.SwapUint64":  atomicSwap,
		"sync/atomic.SwapUintptr": atomicSwap,
		"sync/atomic.SwapPointer": atomicSwap,
		"sync/atomic.AddInt32":   atomicAdd,
		"sync/atomic.AddInt64":   atomicAdd,
		"sync/atomic.AddUint32":  atomicAdd,
		"sync/atomic.AddUint64":  atomicAdd,
		"sync/atomic.AddUintptr": atomicAdd,
		"sync/atomic.CompareAndSwapInt32":   atomicCAS,
		"sync/atomic.CompareAndSwapInt64":   atomicCAS,
		"sync/atomic.CompareAndSwapUint32":  atomicCAS,
		"sync/atomic.CompareAndSwapUint64":  atomicCAS,
		"sync/atomic.CompareAndSwapUintptr": atomicCAS,
		"sync/atomic.CompareAndSwapPointer": atomicCAS,
		"(*sync/atomic.Value).Load":  extAtomicValueLoad,
		"(*sync/atomic.Value).Store": extAtomicValueStore,
		"(*sync/atomic.Pointer[T]).Load":  extAtomicPtrLoad,
		"(*sync/atomic.Pointer[T]).Store": extAtomicPtrStore,
		"(*sync/atomic.Pointer[T]).Swap":  extAtomicPtrSwap,
		"(*sync/atomic.Pointer[T]).CompareAndSwap": extAtomicPtrCAS,

		// errors / fmt
		"errors.Is":    extErrorsIs,
		"errors.As":    extErrorsAs,
		"fmt.Sprintf":  extSprintf,
		"fmt.Errorf":   extErrorf,
		"fmt.Sprint":   extSprint,
		"fmt.Sprintln": extSprintln,
		"fmt.Printf":   func(fr *frame, a []value) value { return tuple{0, iface{}} },
		"fmt.Println":  func(fr *frame, a []value) value { return tuple{0, iface{}} },
		"fmt.Print":    func(fr *frame, a []value) value { return tuple{0, iface{}} },
		"fmt.Fprintf":  extFprintf,
		"fmt.Fprintln": extFprintln,
		"fmt.Fprint":   extFprint,

		// randomness: harnesses that depend on it stub it; the defaults are the identity
		// shuffle and constant draws (recorded as a note on the path)
		"math/rand.Seed":    nop,
		"math/rand.Shuffle": func(fr *frame, a []value) value { fr.i.noteEnv("math/rand.Shuffle modelled as identity"); return nil },
		"math/rand.Intn":    func(fr *frame, a []value) value { fr.i.noteEnv("math/rand.Intn modelled as 0"); return 0 },
		"math/rand.Int":     func(fr *frame, a []value) value { fr.i.noteEnv("math/rand.Int modelled as 0"); return 0 },
		"math/rand.Int63":   func(fr *frame, a []value) value { fr.i.noteEnv("math/rand.Int63 modelled as 0"); return int64(0) },
		"math/rand.Int31n":  func(fr *frame, a []value) value { fr.i.noteEnv("math/rand.Int31n modelled as 0"); return int32(0) },
		"math/rand.Uint32":  func(fr *frame, a []value) value { fr.i.noteEnv("math/rand.Uint32 modelled as 0"); return uint32(0) },

		// the proxy's logger: arguments are evaluated by the caller, the sink is empty
		"github.com/XiaoMi/Gaea/log.Debug":   extLogNop,
		"github.com/XiaoMi/Gaea/log.Debugx":  extLogNop,
		"github.com/XiaoMi/Gaea/log.Trace":   extLogNop,
		"github.com/XiaoMi/Gaea/log.Tracex":  extLogNop,
		"github.com/XiaoMi/Gaea/log.Notice":  extLogNop,
		"github.com/XiaoMi/Gaea/log.Noticex": extLogNop,
		"github.com/XiaoMi/Gaea/log.Warn":    extLogNop,
		"github.com/XiaoMi/Gaea/log.Warnx":   extLogNop,
		"github.com/XiaoMi/Gaea/log.Fatal":   func(fr *frame, a []value) value { fr.i.noteEnv("log.Fatal reached"); return iface{} },
		"github.com/XiaoMi/Gaea/log.Fatalx":  func(fr *frame, a []value) value { fr.i.noteEnv("log.Fatal reached"); return iface{} },

		"sort.Slice":       extSortSlice,
		"sort.SliceStable": extSortSlice,
	} {
		if v != nil {
			externals[k] = v
		}
	}
}

// The logger is a synchronisation point of the real program (it takes a lock and writes): under
// symbolic scheduling another goroutine may run here.
func extLogNop(fr *frame, a []value) value {
	if fr.i.sched != nil {
		fr.i.sched.yieldPoint()
	}
	return iface{}
}

// condExternals: functions summarised only when an operand is symbolic
// (formatting of symbolic times for log messages); concrete calls run the real code.
var condExternals = map[string]func(fr *frame, a []value) (value, bool){
	// (time.Time).Format is NOT summarised here: date rules compute with it. Harnesses
	// whose code formats symbolic times only for log text stub it themselves.
	"(time.Time).String": func(fr *frame, a []value) (value, bool) {
		if isSymbolic(a[0]) {
			return "<time>", true
		}
		return nil, false
	},
	"(time.Duration).String": func(fr *frame, a []value) (value, bool) {
		if isSymbolic(a[0]) {
			return "<duration>", true
		}
		return nil, false
	},
}

func (in *interpreter) noteEnv(s string) {
	if in.path != nil {
		in.path.note(s)
	}
}

func cu32(v value) uint32 {
	if x, ok := v.(uint32); ok {
		return x
	}
	unsupported("symbolic float bits")
	return 0
}
func cu64(v value) uint64 {
	if x, ok := v.(uint64); ok {
		return x
	}
	unsupported("symbolic float bits")
	return 0
}

func makeByteSlice(n int) []value {
	r := make([]value, n)
	for i := range r {
		r[i] = uint8(0)
	}
	return r
}

func seqElems(v value) []value {
	switch v := v.(type) {
	case []value:
		return v
	case string, sstr:
		return strBytes(v)
	}
	panic(fmt.Sprintf("seqElems: %T", v))
}

// IndexByte(s, c): first index of c, forking per position when symbolic.
func extIndexByte(fr *frame, args []value) value {
	in := fr.i
	s := seqElems(args[0])
	c := args[1]
	for i, b := range s {
		if bb, ok := b.(uint8); ok {
			if cc, ok := c.(uint8); ok {
				if bb == cc {
					return i
				}
				continue
			}
		}
		if in.truth(in.eqValue(types.Typ[types.Uint8], b, c)) {
			return i
		}
	}
	return -1
}

func extCountByte(fr *frame, args []value) value {
	in := fr.i
	s := seqElems(args[0])
	n := 0
	for _, b := range s {
		if in.truth(in.eqValue(types.Typ[types.Uint8], b, args[1])) {
			n++
		}
	}
	return n
}

func extBytesEqual(fr *frame, args []value) value {
	in := fr.i
	a, b := seqElems(args[0]), seqElems(args[1])
	if len(a) != len(b) {
		return false
	}
	sym := false
	for i := range a {
		_, s1 := a[i].(*Term)
		_, s2 := b[i].(*Term)
		if s1 || s2 {
			sym = true
			break
		}
	}
	if !sym {
		for i := range a {
			if a[i] != b[i] {
				return false
			}
		}
		return true
	}
	return norm(types.Typ[types.Bool], in.bytesEq(a, b))
}

// Compare returns -1/0/+1; forks when symbolic.
func extBytesCompare(fr *frame, args []value) value {
	in := fr.i
	a, b := seqElems(args[0]), seqElems(args[1])
	n := len(a)
	if len(b) < n {
		n = len(b)
	}
	for i := 0; i < n; i++ {
		x, xo := a[i].(uint8)
		y, yo := b[i].(uint8)
		if xo && yo {
			if x < y {
				return -1
			}
			if x > y {
				return 1
			}
			continue
		}
		tt := in.needPath().tt
		tx, ty := in.term(a[i]), in.term(b[i])
		if in.truth(norm(types.Typ[types.Bool], tt.Eq(tx, ty))) {
			continue
		}
		if in.truth(norm(types.Typ[types.Bool], tt.Ult(tx, ty))) {
			return -1
		}
		return 1
	}
	switch {
	case len(a) < len(b):
		return -1
	case len(a) > len(b):
		return 1
	}
	return 0
}

// Index(s, sep): first index of sep in s (fork per candidate position when symbolic).
func extIndexSeq(fr *frame, args []value) value {
	in := fr.i
	s, sep := seqElems(args[0]), seqElems(args[1])
	if len(sep) == 0 {
		return 0
	}
	for i := 0; i+len(sep) <= len(s); i++ {
		c := extBytesEqual(fr, []value{s[i : i+len(sep)], sep})
		if in.truth(c) {
			return i
		}
	}
	return -1
}

func extBuilderString(fr *frame, args []value) value {
	buf := structField(fr, args[0], "buf")
	b, _ := (*buf).([]value)
	r := make([]value, len(b))
	copy(r, b)
	return mkstr(r)
}

func extBuilderGrow(fr *frame, args []value) value {
	in := fr.i
	buf := structField(fr, args[0], "buf")
	b, _ := (*buf).([]value)
	n := int(in.concreteInt(types.Typ[types.Int], args[1]))
	nb := make([]value, len(b), 2*cap(b)+n)
	copy(nb, b)
	in.write(buf, nb)
	return nil
}

func extPoolGet(fr *frame, args []value) value {
	newf := structField(fr, args[0], "New")
	switch f := (*newf).(type) {
	case *ssa.Function:
		if f == nil {
			return iface{}
		}
		return call(fr.i, fr, 0, f, nil)
	case *closure:
		return call(fr.i, fr, 0, f, nil)
	}
	return iface{}
}

// The time.now linkname: (sec int64, nsec int32, mono int64).  The default
// clock is a constant; harnesses that depend on time stub time.Now.
func extTimeNowRaw(fr *frame, args []value) value {
	if fr.i.path != nil {
		fr.i.path.note("time.now: default constant clock used")
	}
	return tuple{int64(1700000000), int32(0), int64(1000000000)}
}

// ---------------------------------------------------------------------
// sync/atomic over boxed cells (the baton makes every operation atomic).

func atomicLoad(fr *frame, args []value) value {
	fr.i.needSched().yieldPoint()
	return fr.i.loadFrom(mustDeref(fr.fn.Signature.Params().At(0).Type()), args[0])
}

func atomicStore(fr *frame, args []value) value {
	fr.i.needSched().yieldPoint()
	fr.i.storeTo(mustDeref(fr.fn.Signature.Params().At(0).Type()), args[0], args[1])
	return nil
}

func atomicSwap(fr *frame, args []value) value {
	fr.i.needSched().yieldPoint()
	T := mustDeref(fr.fn.Signature.Params().At(0).Type())
	old := fr.i.loadFrom(T, args[0])
	fr.i.storeTo(T, args[0], args[1])
	return old
}

func atomicAdd(fr *frame, args []value) value {
	fr.i.needSched().yieldPoint()
	T := mustDeref(fr.fn.Signature.Params().At(0).Type())
	old := fr.i.loadFrom(T, args[0])
	nv := fr.i.binop(tokenADD, T, old, args[1], T)
	fr.i.storeTo(T, args[0], nv)
	return nv
}

func atomicCAS(fr *frame, args []value) value {
	in := fr.i
	in.needSched().yieldPoint()
	T := mustDeref(fr.fn.Signature.Params().At(0).Type())
	old := in.loadFrom(T, args[0])
	var eq value
	if basicKind(T) == types.UnsafePointer {
		eq = old == args[1]
	} else {
		eq = in.eqValue(T, old, args[1])
	}
	if in.truth(eq) {
		in.storeTo(T, args[0], args[2])
		return true
	}
	return false
}

func extAtomicValueLoad(fr *frame, args []value) value {
	fr.i.needSched().yieldPoint()
	v := structField(fr, args[0], "v")
	return *v
}

func extAtomicValueStore(fr *frame, args []value) value {
	fr.i.needSched().yieldPoint()
	v := structField(fr, args[0], "v")
	if args[1].(iface).t == nil {
		panic(targetPanic{iface{fr.i.runtimeErrorString, "sync/atomic: store of nil value into Value"}})
	}
	fr.i.write(v, args[1])
	return nil
}

// atomic.Pointer[T]: the field v (declared unsafe.Pointer) holds the *value directly.
func ptrCell(fr *frame, recv value) *value {
	p := recv.(*value)
	if p == nil {
		panic(targetPanic{fr.i.runtimeError("invalid memory address or nil pointer dereference")})
	}
	st := (*p).(structure)
	// fields: _ [0]*T; _ noCopy; v unsafe.Pointer
	return &st[len(st)-1]
}

func ptrVal(v value) value {
	if v == nil {
		return (*value)(nil)
	}
	if _, ok := v.(unsafe.Pointer); ok {
		return (*value)(nil)
	}
	return v
}

func extAtomicPtrLoad(fr *frame, args []value) value {
	fr.i.needSched().yieldPoint()
	return ptrVal(*ptrCell(fr, args[0]))
}

func extAtomicPtrStore(fr *frame, args []value) value {
	fr.i.needSched().yieldPoint()
	fr.i.write(ptrCell(fr, args[0]), args[1])
	return nil
}

func extAtomicPtrSwap(fr *frame, args []value) value {
	fr.i.needSched().yieldPoint()
	c := ptrCell(fr, args[0])
	old := ptrVal(*c)
	fr.i.write(c, args[1])
	return old
}

func extAtomicPtrCAS(fr *frame, args []value) value {
	fr.i.needSched().yieldPoint()
	c := ptrCell(fr, args[0])
	if ptrVal(*c) == args[1] {
		fr.i.write(c, args[2])
		return true
	}
	return false
}

// ---------------------------------------------------------------------
// errors.Is / errors.As over target values.

func (in *interpreter) callMethod(fr *frame, recv iface, name string, args ...value) (value, bool) {
	if recv.t == nil {
		return nil, false
	}
	ms := in.prog.MethodSets.MethodSet(recv.t)
	for i := 0; i < ms.Len(); i++ {
		sel := ms.At(i)
		if sel.Obj().Name() == name {
			fn := in.prog.MethodValue(sel)
			if fn == nil {
				return nil, false
			}
			return call(in, fr, 0, fn, append([]value{recv.v}, args...)), true
		}
	}
	return nil, false
}

func extErrorsIs(fr *frame, args []value) value {
	in := fr.i
	err, _ := args[0].(iface)
	target, _ := args[1].(iface)
	if err.t == nil || target.t == nil {
		return err.t == nil && target.t == nil
	}
	comparable := types.Comparable(target.t)
	var is func(e iface, depth int) bool
	is = func(e iface, depth int) bool {
		for depth < 64 {
			if e.t == nil {
				return false
			}
			if comparable && sameType(e.t, target.t) {
				if in.truth(in.eqValue(e.t, e.v, target.v)) {
					return true
				}
			}
			if r, ok := in.callMethod(fr, e, "Is", target); ok {
				if b, isb := r.(bool); isb && b {
					return true
				}
			}
			r, ok := in.callMethod(fr, e, "Unwrap")
			if !ok {
				return false
			}
			switch u := r.(type) {
			case iface:
				e = u
			case []value:
				for _, x := range u {
					if is(x.(iface), depth+1) {
						return true
					}
				}
				return false
			default:
				return false
			}
			depth++
		}
		return false
	}
	return is(err, 0)
}

func extErrorsAs(fr *frame, args []value) value {
	in := fr.i
	err, _ := args[0].(iface)
	target, _ := args[1].(iface)
	if target.t == nil {
		panic(targetPanic{iface{in.runtimeErrorString, "errors: target cannot be nil"}})
	}
	pt, ok := target.t.Underlying().(*types.Pointer)
	if !ok {
		panic(targetPanic{iface{in.runtimeErrorString, "errors: target must be a non-nil pointer"}})
	}
	T := pt.Elem()
	dst := target.v.(*value)
	for depth := 0; err.t != nil && depth < 64; depth++ {
		if _, isI := T.Underlying().(*types.Interface); isI {
			if types.AssignableTo(err.t, T) {
				in.write(dst, err)
				return true
			}
		} else if types.Identical(err.t, T) {
			in.storeTo(T, dst, err.v)
			return true
		}
		if r, ok := in.callMethod(fr, err, "As", target); ok {
			if b, isb := r.(bool); isb && b {
				return true
			}
		}
		r, ok := in.callMethod(fr, err, "Unwrap")
		if !ok {
			return false
		}
		u, isI := r.(iface)
		if !isI {
			return false
		}
		err = u
	}
	return false
}

// ---------------------------------------------------------------------
// fmt: formatted natively.  Symbolic operands print as an opaque marker
// (results are used for messages; a note is recorded on the path).

type nativeStringer struct{ s string }

func (n nativeStringer) String() string { return n.s }

type nativeError struct{ s string }

func (n nativeError) Error() string { return n.s }

func (in *interpreter) toNative(fr *frame, v value, depth int) interface{} {
	switch x := v.(type) {
	case nil:
		return nil
	case iface:
		if x.t == nil {
			return nil
		}
		// error / Stringer first
		if depth < 4 {
			if _, isNamedOrPtr := x.t.(*types.Basic); !isNamedOrPtr {
				if r, ok := in.tryStringMethod(fr, x, "Error"); ok {
					return nativeError{r}
				}
				if r, ok := in.tryStringMethod(fr, x, "String"); ok {
					return nativeStringer{r}
				}
			}
		}
		if tm, ok := x.v.(*Term); ok && in.path != nil && tm.Op != OpConst && tm.W > 1 && tm.Hi < 1<<62 && tm.Hi-tm.Lo <= 15 {
			// a symbolic integer with a small range of values: format each value on its own path
			if bt, ok := x.t.Underlying().(*types.Basic); ok && bt.Info()&types.IsInteger != 0 {
				v := in.path.Concretize(tm)
				switch bt.Kind() {
				case types.Int:
					return int(v)
				case types.Int8:
					return int8(v)
				case types.Int16:
					return int16(v)
				case types.Int32:
					return int32(v)
				case types.Int64:
					return int64(v)
				case types.Uint:
					return uint(v)
				case types.Uint8:
					return uint8(v)
				case types.Uint16:
					return uint16(v)
				case types.Uint32:
					return uint32(v)
				case types.Uint64:
					return v
				}
			}
		}
		return in.toNative(fr, x.v, depth+1)
	case *Term:
		if in.path != nil {
			in.path.note("fmt: symbolic operand rendered as <sym>")
		}
		return nativeStringer{"<sym>"}
	case sstr:
		if in.path != nil {
			in.path.note("fmt: symbolic operand rendered as <sym>")
		}
		return "<symstr>"
	case []value:
		allBytes := len(x) > 0
		for _, e := range x {
			if _, ok := e.(uint8); !ok {
				allBytes = false
				break
			}
		}
		if allBytes {
			b := make([]byte, len(x))
			for i, e := range x {
				b[i] = e.(uint8)
			}
			return b
		}
		r := make([]interface{}, len(x))
		for i, e := range x {
			r[i] = in.toNative(fr, e, depth+1)
		}
		return r
	case structure:
		r := make([]interface{}, len(x))
		for i, e := range x {
			r[i] = in.toNative(fr, e, depth+1)
		}
		return r
	case array:
		r := make([]interface{}, len(x))
		for i, e := range x {
			r[i] = in.toNative(fr, e, depth+1)
		}
		return r
	case *value:
		if x == nil {
			return nil
		}
		return fmt.Sprintf("%p", x)
	case *omap:
		return fmt.Sprintf("map[%d entries]", x.len())
	case *ssa.Function, *closure:
		return "func"
	}
	return v
}

func (in *interpreter) tryStringMethod(fr *frame, x iface, name string) (s string, ok bool) {
	ms := in.prog.MethodSets.MethodSet(x.t)
	for i := 0; i < ms.Len(); i++ {
		sel := ms.At(i)
		if sel.Obj().Name() != name {
			continue
		}
		sig := sel.Type().(*types.Signature)
		if sig.Params().Len() != 0 || sig.Results().Len() != 1 || basicKind(sig.Results().At(0).Type()) != types.String {
			return "", false
		}
		if p, isPtr := x.v.(*value); isPtr && p == nil {
			return "<nil>", true
		}
		fn := in.prog.MethodValue(sel)
		if fn == nil {
			return "", false
		}
		defer func() {
			if r := recover(); r != nil {
				if ea, isAbort := r.(engineAbort); isAbort {
					panic(ea)
				}
				s, ok = "<panic in "+name+">", true
			}
		}()
		r := call(in, fr, 0, fn, []value{x.v})
		switch r := r.(type) {
		case string:
			return r, true
		case sstr:
			return "<symstr>", true
		}
		return "", false
	}
	return "", false
}

func (in *interpreter) nativeArgs(fr *frame, v value) []interface{} {
	xs, _ := v.([]value)
	r := make([]interface{}, len(xs))
	for i, x := range xs {
		r[i] = in.toNative(fr, x, 0)
	}
	return r
}

func fmtString(v value) string {
	switch s := v.(type) {
	case string:
		return s
	case sstr:
		return "<symfmt>"
	}
	return ""
}

func extSprintf(fr *frame, a []value) value {
	return fmt.Sprintf(fmtString(a[0]), fr.i.nativeArgs(fr, a[1])...)
}
func extSprint(fr *frame, a []value) value   { return fmt.Sprint(fr.i.nativeArgs(fr, a[0])...) }
func extSprintln(fr *frame, a []value) value { return fmt.Sprintln(fr.i.nativeArgs(fr, a[0])...) }

func (in *interpreter) writeTo(fr *frame, w value, s string) value {
	wi, _ := w.(iface)
	if wi.t == nil {
		panic(targetPanic{in.runtimeError("invalid memory address or nil pointer dereference")})
	}
	r, ok := in.callMethod(fr, wi, "Write", strElems(s))
	if !ok {
		unsupported("Fprintf to %s: no Write method", wi.t)
	}
	return r
}

func extFprintf(fr *frame, a []value) value {
	return fr.i.writeTo(fr, a[0], fmt.Sprintf(fmtString(a[1]), fr.i.nativeArgs(fr, a[2])...))
}
func extFprintln(fr *frame, a []value) value {
	return fr.i.writeTo(fr, a[0], fmt.Sprintln(fr.i.nativeArgs(fr, a[1])...))
}
func extFprint(fr *frame, a []value) value {
	return fr.i.writeTo(fr, a[0], fmt.Sprint(fr.i.nativeArgs(fr, a[1])...))
}

// fmt.Errorf: builds the real *fmt.wrapError / *errors.errorString objects.
func extErrorf(fr *frame, a []value) value {
	in := fr.i
	format := fmtString(a[0])
	xs, _ := a[1].([]value)
	msg := fmt.Sprintf(strings.ReplaceAll(format, "%w", "%v"), in.nativeArgs(fr, a[1])...)
	var wrapped []iface
	if strings.Contains(format, "%w") {
		// pair %w verbs with their operands
		argi := 0
		for i := 0; i < len(format); i++ {
			if format[i] != '%' {
				continue
			}
			i++
			for i < len(format) && strings.IndexByte("+-# 0123456789.", format[i]) >= 0 {
				i++
			}
			if i >= len(format) {
				break
			}
			if format[i] == '%' {
				continue
			}
			if format[i] == 'w' && argi < len(xs) {
				if e, ok := xs[argi].(iface); ok && e.t != nil {
					wrapped = append(wrapped, e)
				}
			}
			argi++
		}
	}
	fmtPkg := in.prog.ImportedPackage("fmt")
	errorsPkg := in.prog.ImportedPackage("errors")
	if len(wrapped) == 1 && fmtPkg != nil {
		T := fmtPkg.Type("wrapError").Type()
		var cell value = structure{msg, wrapped[0]}
		return iface{t: types.NewPointer(T), v: &cell}
	}
	if len(wrapped) > 1 && fmtPkg != nil {
		T := fmtPkg.Type("wrapErrors").Type()
		errs := make([]value, len(wrapped))
		for i, w := range wrapped {
			errs[i] = w
		}
		var cell value = structure{msg, errs}
		return iface{t: types.NewPointer(T), v: &cell}
	}
	if errorsPkg != nil {
		T := errorsPkg.Type("errorString").Type()
		var cell value = structure{msg}
		return iface{t: types.NewPointer(T), v: &cell}
	}
	return iface{t: in.runtimeErrorString, v: msg}
}

// sort.Slice(x any, less func(i, j int) bool): insertion sort driven by the target's less.
func extSortSlice(fr *frame, a []value) value {
	in := fr.i
	x, _ := a[0].(iface)
	s, ok := x.v.([]value)
	if !ok {
		if x.t == nil {
			return nil
		}
		unsupported("sort.Slice on %s", x.t)
	}
	less := func(i, j int) bool {
		return in.truth(call(in, fr, 0, a[1], []value{i, j}))
	}
	// stable insertion sort: swaps adjacent elements (less sees current positions)
	for i := 1; i < len(s); i++ {
		for j := i; j > 0 && less(j, j-1); j-- {
			vi, vj := s[j], s[j-1]
			in.write(&s[j], vj)
			in.write(&s[j-1], vi)
		}
	}
	return nil
}
