package gosym

// Intrinsics: the harness API (package zz_verifsym) as seen by the engine.

import (
	"fmt"
	"go/types"
)

type intrinsic func(fr *frame, args []value) value

var vsIntrinsics map[string]intrinsic

func init() {
	vsIntrinsics = map[string]intrinsic{
		"Bool":       func(fr *frame, a []value) value { return fr.i.nondet(a[0], 0, types.Typ[types.Bool]) },
		"Int":        func(fr *frame, a []value) value { return fr.i.nondet(a[0], 64, types.Typ[types.Int]) },
		"Int8":       func(fr *frame, a []value) value { return fr.i.nondet(a[0], 8, types.Typ[types.Int8]) },
		"Int16":      func(fr *frame, a []value) value { return fr.i.nondet(a[0], 16, types.Typ[types.Int16]) },
		"Int32":      func(fr *frame, a []value) value { return fr.i.nondet(a[0], 32, types.Typ[types.Int32]) },
		"Int64":      func(fr *frame, a []value) value { return fr.i.nondet(a[0], 64, types.Typ[types.Int64]) },
		"Uint":       func(fr *frame, a []value) value { return fr.i.nondet(a[0], 64, types.Typ[types.Uint]) },
		"Uint8":      func(fr *frame, a []value) value { return fr.i.nondet(a[0], 8, types.Typ[types.Uint8]) },
		"Byte":       func(fr *frame, a []value) value { return fr.i.nondet(a[0], 8, types.Typ[types.Uint8]) },
		"Uint16":     func(fr *frame, a []value) value { return fr.i.nondet(a[0], 16, types.Typ[types.Uint16]) },
		"Uint32":     func(fr *frame, a []value) value { return fr.i.nondet(a[0], 32, types.Typ[types.Uint32]) },
		"Uint64":     func(fr *frame, a []value) value { return fr.i.nondet(a[0], 64, types.Typ[types.Uint64]) },
		"IntRange":   vsIntRange,
		"SymRange":   vsSymRange,
		"Choice":     vsChoice,
		"Bytes":      vsBytes,
		"String":     vsString,
		"Assume":     vsAssume,
		"Assert":     vsAssert,
		"Fail":       vsFail,
		"Cover":      vsCover,
		"TagI":       func(fr *frame, a []value) value { return vsTag(fr, a, true) },
		"TagU":       func(fr *frame, a []value) value { return vsTag(fr, a, false) },
		"TagB":       func(fr *frame, a []value) value { return vsTag(fr, a, false) },
		"Note":       vsNote,
		"Concrete":   vsConcrete,
		"Tier":       func(fr *frame, a []value) value { return fr.i.needPath().ex.Tier },
		"Pick":       vsPick,
		"IsSubslice": vsIsSubslice,
		"Symbolic":   func(fr *frame, a []value) value { return true },
		// Fork decides a condition by forking the path (never ite-merged): the result is concrete.
		"Fork": func(fr *frame, a []value) value { return fr.i.truth(a[0]) },
		// Ite* select without forking.
		"IteI64": vsIte, "IteInt": vsIte, "IteU64": vsIte, "IteBool": vsIte, "IteByte": vsIte,
		"And": func(fr *frame, a []value) value {
			in := fr.i
			return norm(types.Typ[types.Bool], in.needPath().tt.And(in.boolTerm(a[0]), in.boolTerm(a[1])))
		},
		"Or": func(fr *frame, a []value) value {
			in := fr.i
			return norm(types.Typ[types.Bool], in.needPath().tt.Or(in.boolTerm(a[0]), in.boolTerm(a[1])))
		},
		"Implies": func(fr *frame, a []value) value {
			in := fr.i
			return norm(types.Typ[types.Bool], in.needPath().tt.Implies(in.boolTerm(a[0]), in.boolTerm(a[1])))
		},
	}
}

func argString(v value) string {
	s, ok := v.(string)
	if !ok {
		unsupported("intrinsic needs a concrete string argument, got %T", v)
	}
	return s
}

func (in *interpreter) nondet(name value, w uint8, t types.Type) value {
	return in.needPath().NewNondet(argString(name), w)
}

func (in *interpreter) rangeNondet(name string, lo, hi int64) *Term {
	p := in.needPath()
	tt := p.tt
	if lo >= 0 {
		// Declare the interval so that the term layer can use it, and assert the
		// range constraint as raw SMT text (built as a term it would be
		// simplified away by the very interval it justifies).
		if p.tt.vr == nil {
			p.tt.vr = make(map[string][2]uint64)
		}
		sym := fmt.Sprintf("n%d_%s", len(p.nondets), sanitize(name))
		p.tt.vr[sym] = [2]uint64{uint64(lo), uint64(hi)}
		x := p.NewNondet(name, 64)
		p.w.solver.Assert(fmt.Sprintf("(and (bvule %s %s) (bvule %s %s))", constStr(64, uint64(lo)), sym, sym, constStr(64, uint64(hi))))
		if p.model != nil {
			if v := p.model[sym]; v < uint64(lo) || v > uint64(hi) {
				p.model[sym] = uint64(lo)
				p.memo = nil
			}
		}
		return x
	}
	x := p.NewNondet(name, 64)
	p.Assume(tt.And(tt.Sle(tt.Const(64, uint64(lo)), x), tt.Sle(x, tt.Const(64, uint64(hi)))))
	return x
}

func vsIntRange(fr *frame, a []value) value {
	in := fr.i
	lo := in.concreteInt(types.Typ[types.Int], a[1])
	hi := in.concreteInt(types.Typ[types.Int], a[2])
	if lo > hi {
		panic(engineAbort{"assume", "empty IntRange"})
	}
	x := in.rangeNondet(argString(a[0]), lo, hi)
	return in.enumNondet(x, lo, hi)
}

func vsSymRange(fr *frame, a []value) value {
	in := fr.i
	lo := in.concreteInt(types.Typ[types.Int], a[1])
	hi := in.concreteInt(types.Typ[types.Int], a[2])
	if lo > hi {
		panic(engineAbort{"assume", "empty SymRange"})
	}
	return norm(types.Typ[types.Int], in.rangeNondet(argString(a[0]), lo, hi))
}

func vsChoice(fr *frame, a []value) value {
	in := fr.i
	n := in.concreteInt(types.Typ[types.Int], a[1])
	if n <= 0 {
		panic(engineAbort{"assume", "empty Choice"})
	}
	x := in.rangeNondet(argString(a[0]), 0, n-1)
	return in.enumNondet(x, 0, n-1)
}

// enumNondet enumerates the values of the range variable just created by rangeNondet.
func (in *interpreter) enumNondet(x *Term, lo, hi int64) value {
	p := in.needPath()
	if lo >= 0 {
		sym := p.nondets[len(p.nondets)-1].Sym
		return int(int64(p.EnumRange(x, sym, uint64(lo), uint64(hi))))
	}
	return int(int64(p.Concretize(x)))
}

func vsBytes(fr *frame, a []value) value {
	in := fr.i
	name := argString(a[0])
	n := in.concreteInt(types.Typ[types.Int], a[1])
	if n < 0 || n > 1<<20 {
		unsupported("vs.Bytes length %d", n)
	}
	p := in.needPath()
	r := make([]value, n)
	for i := range r {
		r[i] = p.NewNondet(fmt.Sprintf("%s[%d]", name, i), 8)
	}
	return r
}

func vsString(fr *frame, a []value) value {
	return mkstr(vsBytes(fr, a).([]value))
}

func vsAssume(fr *frame, a []value) value {
	in := fr.i
	switch c := a[0].(type) {
	case bool:
		if !c {
			panic(engineAbort{"assume", "assumption is false"})
		}
	case *Term:
		in.needPath().Assume(c)
	}
	return nil
}

func vsAssert(fr *frame, a []value) value {
	in := fr.i
	p := in.needPath()
	id := argString(a[1])
	where := ""
	if fr.caller != nil {
		where = in.pos(fr.caller)
	}
	p.Assert(in.boolTerm(a[0]), id, where)
	return nil
}

func vsFail(fr *frame, a []value) value {
	in := fr.i
	p := in.needPath()
	where := ""
	if fr.caller != nil {
		where = in.pos(fr.caller)
	}
	p.Assert(p.tt.Bool(false), argString(a[0]), where)
	return nil
}

func vsCover(fr *frame, a []value) value {
	fr.i.needPath().Cover(argString(a[0]))
	return nil
}

func vsTag(fr *frame, a []value, signed bool) value {
	in := fr.i
	p := in.needPath()
	name := argString(a[0])
	p.Tag(name, in.term(a[1]))
	p.tagSigned[name] = signed
	return nil
}

func vsNote(fr *frame, a []value) value {
	p := fr.i.needPath()
	p.res.mu.Lock()
	p.res.Notes[argString(a[0])] = true
	p.res.mu.Unlock()
	return nil
}

func vsConcrete(fr *frame, a []value) value {
	return int(fr.i.concreteInt(types.Typ[types.Int], a[0]))
}

func vsPick(fr *frame, a []value) value {
	if fr.i.needPath().ex.Tier >= 1 {
		return a[1]
	}
	return a[0]
}

func vsIte(fr *frame, a []value) value {
	in := fr.i
	switch c := a[0].(type) {
	case bool:
		if c {
			return a[1]
		}
		return a[2]
	case *Term:
		v, ok := in.iteValue(c, a[1], a[2])
		if !ok {
			unsupported("vs.Ite on %T/%T", a[1], a[2])
		}
		return v
	}
	panic("vsIte")
}

func vsIsSubslice(fr *frame, a []value) value {
	sub := a[0].([]value)
	whole := a[1].([]value)
	if len(sub) == 0 {
		return true
	}
	if len(whole) == 0 {
		return false
	}
	for i := range whole {
		if &whole[i] == &sub[0] {
			return i+len(sub) <= len(whole)
		}
	}
	return false
}
