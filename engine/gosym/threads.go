package gosym

// Deterministic green threads, channels, select and the sync primitives.
//
// Every target goroutine runs on its own Go goroutine, but only the holder of
// the baton runs; control moves at visible operations only.  Scheduling
// choices are decisions of the path (Choose), so schedules are explored like
// branches.  Two modes: run-to-block (a thread runs until it blocks or ends;
// no preemption) and symbolic (at each visible operation the next thread is
// a nondeterministic choice, up to a preemption bound).

import (
	"fmt"
	"go/token"
	"go/types"

	"golang.org/x/tools/go/ssa"
)

type thread struct {
	id     int
	wake   chan struct{}
	exited chan struct{}
	done   bool
	ready  func() bool // nil = runnable
	why    string
	yielded bool
}

type scheduler struct {
	in         *interpreter
	threads    []*thread
	cur        *thread
	killed     bool
	symbolic   bool
	maxPreempt int
	preempts   int
	abort      interface{} // first abort raised in a non-main thread
}

func (in *interpreter) resetScheduler() {
	main := &thread{id: 0, wake: make(chan struct{}, 1), exited: make(chan struct{})}
	in.sched = &scheduler{in: in, threads: []*thread{main}, cur: main}
}

func (s *scheduler) runnable() []*thread {
	var r []*thread
	for _, t := range s.threads {
		if t.done {
			continue
		}
		if t.ready == nil || t.ready() {
			r = append(r, t)
		}
	}
	return r
}

// switchTo hands the baton to t and parks the current thread until it is woken.
func (s *scheduler) switchTo(t *thread) {
	me := s.cur
	if t == me {
		return
	}
	s.cur = t
	t.wake <- struct{}{}
	if me.done {
		return
	}
	<-me.wake
	if s.killed {
		panic(engineAbort{"killed", "thread killed at end of path"})
	}
}

// block parks the current thread until ready() holds.
func (s *scheduler) block(ready func() bool, why string) {
	if ready() {
		return
	}
	me := s.cur
	me.ready, me.why = ready, why
	for {
		rs := s.runnable()
		if len(rs) == 0 {
			desc := ""
			for _, t := range s.threads {
				if !t.done {
					desc += fmt.Sprintf(" [thread %d: %s]", t.id, t.why)
				}
			}
			me.ready = nil
			panic(engineAbort{"deadlock", "all threads blocked:" + desc})
		}
		next := s.pick(rs)
		if next == me {
			break
		}
		s.switchTo(next)
		if ready() {
			break
		}
	}
	me.ready, me.why = nil, ""
}

func (s *scheduler) pick(rs []*thread) *thread {
	if len(rs) == 1 {
		return rs[0]
	}
	if s.symbolic && s.in.path != nil {
		return rs[s.in.path.Choose(len(rs))]
	}
	return rs[0]
}

// yieldPoint is called before visible operations: in symbolic mode the
// scheduler may preempt the running thread (bounded).
func (s *scheduler) yieldPoint() {
	if !s.symbolic || len(s.threads) == 1 || s.in.path == nil {
		return
	}
	if s.preempts >= s.maxPreempt {
		return
	}
	rs := s.runnable()
	if len(rs) <= 1 {
		return
	}
	// put the current thread first so that choice 0 = no preemption
	ord := []*thread{s.cur}
	for _, t := range rs {
		if t != s.cur {
			ord = append(ord, t)
		}
	}
	k := s.in.path.Choose(len(ord))
	if k != 0 {
		s.preempts++
		s.switchTo(ord[k])
	}
}

// gosched implements runtime.Gosched / time.Sleep: in run-to-block mode the
// other runnable threads get to run (each until it blocks or ends) before the
// caller continues; in symbolic mode it is an ordinary preemption point.
func (s *scheduler) gosched() {
	if s.symbolic {
		s.yieldPoint()
		return
	}
	me := s.cur
	for guard := 0; guard < 256; guard++ {
		var next *thread
		for _, t := range s.runnable() {
			if t != me && !t.yielded {
				next = t
				break
			}
		}
		if next == nil {
			break
		}
		next.yielded = true
		s.switchTo(next)
	}
	for _, t := range s.threads {
		t.yielded = false
	}
	s.checkAbort()
}

func (in *interpreter) spawn(fn value, args []value, pos token.Pos) {
	s := in.sched
	if s == nil {
		unsupported("go statement outside a path")
	}
	t := &thread{id: len(s.threads), wake: make(chan struct{}, 1), exited: make(chan struct{})}
	s.threads = append(s.threads, t)
	if len(s.threads) > 64 {
		panic(engineAbort{"unwind", "more than 64 goroutines on one path"})
	}
	go func() {
		defer close(t.exited)
		<-t.wake
		if s.killed {
			return
		}
		func() {
			defer func() {
				if r := recover(); r != nil {
					if ea, ok := r.(engineAbort); ok && ea.kind == "killed" {
						return
					}
					if s.abort == nil {
						s.abort = r
					}
				}
			}()
			call(in, nil, pos, fn, args)
		}()
		t.done = true
		if s.killed {
			return
		}
		if s.abort != nil {
			// hand control back to the main thread, which re-raises the abort
			s.threads[0].ready = nil
			s.switchTo(s.threads[0])
			return
		}
		rs := s.runnable()
		if len(rs) == 0 {
			// everyone else is blocked: wake main to report the deadlock
			s.abort = engineAbort{"deadlock", "all remaining threads blocked after a goroutine ended"}
			s.threads[0].ready = nil
			s.switchTo(s.threads[0])
			return
		}
		s.switchTo(s.pick(rs))
	}()
	s.yieldPoint()
}

// checkAbort re-raises (on the main thread) an abort recorded by another thread.
func (s *scheduler) checkAbort() {
	if s.abort != nil && s.cur == s.threads[0] {
		a := s.abort
		s.abort = nil
		if tp, ok := a.(targetPanic); ok {
			panic(goroutinePanic{tp})
		}
		panic(a)
	}
}

// goroutinePanic: an unrecovered panic in a non-main goroutine (process crash).
type goroutinePanic struct{ p targetPanic }

// killAll terminates all parked threads at the end of a path.
func (s *scheduler) killAll() {
	s.killed = true
	for _, t := range s.threads[1:] {
		select {
		case t.wake <- struct{}{}:
		default:
		}
		<-t.exited
	}
}

// ---------------------------------------------------------------------
// Channels.

type schan struct {
	buf    []value
	cap    int
	closed bool
	// rendezvous for unbuffered channels
	recvWaiting int
	handoff     []value // values handed to receivers (unbuffered)
}

func (c *schan) length() int {
	if c == nil {
		return 0
	}
	return len(c.buf)
}
func (c *schan) capacity() int {
	if c == nil {
		return 0
	}
	return c.cap
}

func (in *interpreter) makeChan(n int) *schan {
	if n < 0 {
		panic(targetPanic{in.runtimeError("makechan: size out of range")})
	}
	return &schan{cap: n}
}

func (in *interpreter) needSched() *scheduler {
	if in.sched == nil {
		in.resetScheduler()
	}
	return in.sched
}

func (c *schan) canSend() bool {
	if c.closed {
		return true
	}
	if c.cap > 0 {
		return len(c.buf) < c.cap
	}
	return c.recvWaiting > len(c.handoff)
}

func (c *schan) canRecv() bool {
	return len(c.buf) > 0 || len(c.handoff) > 0 || c.closed
}

func (in *interpreter) chanSend(c *schan, v value) {
	s := in.needSched()
	s.yieldPoint()
	if c == nil {
		s.block(func() bool { return false }, "send on nil channel")
	}
	s.block(c.canSend, "chan send")
	if c.closed {
		panic(targetPanic{in.runtimeError("send on closed channel")})
	}
	if c.cap > 0 {
		c.buf = append(c.buf, v)
		in.trailFunc(func() {}) // channels are path-local objects; nothing to undo
		return
	}
	c.handoff = append(c.handoff, v)
}

func (in *interpreter) chanRecv(c *schan) (value, bool) {
	s := in.needSched()
	s.yieldPoint()
	if c == nil {
		s.block(func() bool { return false }, "receive from nil channel")
	}
	if c.cap == 0 {
		c.recvWaiting++
		defer func() { c.recvWaiting-- }()
	}
	s.block(c.canRecv, "chan receive")
	s.checkAbort()
	if len(c.buf) > 0 {
		v := c.buf[0]
		c.buf = c.buf[1:]
		return v, true
	}
	if len(c.handoff) > 0 {
		v := c.handoff[0]
		c.handoff = c.handoff[1:]
		return v, true
	}
	return nil, false // closed
}

func (in *interpreter) chanClose(c *schan) {
	if c == nil {
		panic(targetPanic{in.runtimeError("close of nil channel")})
	}
	if c.closed {
		panic(targetPanic{in.runtimeError("close of closed channel")})
	}
	in.needSched().yieldPoint()
	c.closed = true
}

func (in *interpreter) selectStmt(fr *frame, instr *ssa.Select) value {
	s := in.needSched()
	s.yieldPoint()
	type cs struct {
		c    *schan
		send bool
		v    value
	}
	var cases []cs
	for _, st := range instr.States {
		c, _ := fr.get(st.Chan).(*schan)
		x := cs{c: c, send: st.Dir == types.SendOnly}
		if x.send {
			x.v = fr.get(st.Send)
		}
		cases = append(cases, x)
	}
	readyIdx := func() []int {
		var r []int
		for i, x := range cases {
			if x.c == nil {
				continue
			}
			if x.send && x.c.canSend() {
				r = append(r, i)
			}
			if !x.send && x.c.canRecv() {
				r = append(r, i)
			}
		}
		return r
	}
	for _, x := range cases {
		if x.c != nil && !x.send && x.c.cap == 0 {
			x.c.recvWaiting++
			c := x.c
			defer func() { c.recvWaiting-- }()
		}
	}
	chosen := -1
	rs := readyIdx()
	if len(rs) == 0 {
		if !instr.Blocking {
			chosen = -1
		} else {
			s.block(func() bool { return len(readyIdx()) > 0 }, "select")
			s.checkAbort()
			rs = readyIdx()
		}
	}
	if len(rs) > 0 {
		k := 0
		if len(rs) > 1 && in.path != nil {
			k = in.path.Choose(len(rs)) // Go picks pseudo-randomly among ready cases
		}
		chosen = rs[k]
	}
	recvOk := false
	var recv value
	if chosen >= 0 {
		x := cases[chosen]
		if x.send {
			if x.c.closed {
				panic(targetPanic{in.runtimeError("send on closed channel")})
			}
			if x.c.cap > 0 {
				x.c.buf = append(x.c.buf, x.v)
			} else {
				x.c.handoff = append(x.c.handoff, x.v)
			}
		} else {
			switch {
			case len(x.c.buf) > 0:
				recv, recvOk = x.c.buf[0], true
				x.c.buf = x.c.buf[1:]
			case len(x.c.handoff) > 0:
				recv, recvOk = x.c.handoff[0], true
				x.c.handoff = x.c.handoff[1:]
			}
		}
	}
	r := tuple{chosen, recvOk}
	for i, st := range instr.States {
		if st.Dir == types.RecvOnly {
			var v value
			if i == chosen && recvOk {
				v = recv
			} else {
				v = zero(st.Chan.Type().Underlying().(*types.Chan).Elem())
			}
			r = append(r, v)
		}
	}
	return r
}

// ---------------------------------------------------------------------
// sync primitives, implemented over the fields of the real structs.

func structField(fr *frame, recv value, path ...string) *value {
	p := recv.(*value)
	if p == nil {
		panic(targetPanic{fr.i.runtimeError("invalid memory address or nil pointer dereference")})
	}
	t := mustDeref(fr.fn.Signature.Recv().Type())
	for _, name := range path {
		st := t.Underlying().(*types.Struct)
		idx := -1
		for i := 0; i < st.NumFields(); i++ {
			if st.Field(i).Name() == name {
				idx = i
				break
			}
		}
		if idx < 0 {
			unsupported("field %s not found in %s", name, t)
		}
		p = &(*p).(structure)[idx]
		t = st.Field(idx).Type()
	}
	return p
}

func extMutexLock(fr *frame, args []value) value {
	in := fr.i
	st := structField(fr, args[0], "state")
	s := in.needSched()
	s.yieldPoint()
	s.block(func() bool { return (*st).(int32) == 0 }, "Mutex.Lock")
	in.write(st, int32(1))
	return nil
}

func extMutexTryLock(fr *frame, args []value) value {
	in := fr.i
	st := structField(fr, args[0], "state")
	in.needSched().yieldPoint()
	if (*st).(int32) == 0 {
		in.write(st, int32(1))
		return true
	}
	return false
}

func extMutexUnlock(fr *frame, args []value) value {
	in := fr.i
	st := structField(fr, args[0], "state")
	if (*st).(int32) == 0 {
		panic(engineAbort{"fatal", "sync: unlock of unlocked mutex"})
	}
	in.write(st, int32(0))
	in.needSched().yieldPoint()
	return nil
}

func extRWLock(fr *frame, args []value) value {
	in := fr.i
	w := structField(fr, args[0], "w", "state")
	rc := structField(fr, args[0], "readerCount", "v")
	s := in.needSched()
	s.yieldPoint()
	s.block(func() bool { return (*w).(int32) == 0 && (*rc).(int32) == 0 }, "RWMutex.Lock")
	in.write(w, int32(1))
	return nil
}

func extRWUnlock(fr *frame, args []value) value {
	in := fr.i
	w := structField(fr, args[0], "w", "state")
	if (*w).(int32) == 0 {
		panic(engineAbort{"fatal", "sync: Unlock of unlocked RWMutex"})
	}
	in.write(w, int32(0))
	in.needSched().yieldPoint()
	return nil
}

func extRWRLock(fr *frame, args []value) value {
	in := fr.i
	w := structField(fr, args[0], "w", "state")
	rc := structField(fr, args[0], "readerCount", "v")
	s := in.needSched()
	s.yieldPoint()
	s.block(func() bool { return (*w).(int32) == 0 }, "RWMutex.RLock")
	in.write(rc, (*rc).(int32)+1)
	return nil
}

func extRWRUnlock(fr *frame, args []value) value {
	in := fr.i
	rc := structField(fr, args[0], "readerCount", "v")
	if (*rc).(int32) <= 0 {
		panic(engineAbort{"fatal", "sync: RUnlock of unlocked RWMutex"})
	}
	in.write(rc, (*rc).(int32)-1)
	in.needSched().yieldPoint()
	return nil
}

func extWGAdd(fr *frame, args []value) value {
	in := fr.i
	st := structField(fr, args[0], "state", "v")
	n := int64((*st).(uint64)) + asInt64(args[1])
	if n < 0 {
		panic(targetPanic{iface{in.runtimeErrorString, "sync: negative WaitGroup counter"}})
	}
	in.write(st, uint64(n))
	in.needSched().yieldPoint()
	return nil
}

func extWGDone(fr *frame, args []value) value {
	return extWGAdd(fr, []value{args[0], int(-1)})
}

func extWGWait(fr *frame, args []value) value {
	in := fr.i
	st := structField(fr, args[0], "state", "v")
	s := in.needSched()
	s.yieldPoint()
	s.block(func() bool { return (*st).(uint64) == 0 }, "WaitGroup.Wait")
	s.checkAbort()
	return nil
}
