package gosym

// Predicates of known_findings.json: Go boolean expressions over tag names
// (registered by harnesses with vs.Tag*), integer literals, comparison,
// arithmetic (+ - & | ^ << >> %), && || ! and parentheses.

import (
	"fmt"
	"go/ast"
	"go/parser"
	"go/token"
	"strconv"
)

type predVal struct {
	t      *Term
	signed bool
	lit    bool // untyped literal (adapts to the other operand's width)
	k      uint64
	neg    bool
}

func (p *Path) parsePred(src string) (*Term, error) {
	e, err := parser.ParseExpr(src)
	if err != nil {
		return nil, err
	}
	v, err := p.predEval(e)
	if err != nil {
		return nil, err
	}
	if v.lit || v.t.W != 0 {
		return nil, fmt.Errorf("predicate is not boolean: %s", src)
	}
	return v.t, nil
}

func (p *Path) coerce(a, b predVal) (predVal, predVal, error) {
	tt := p.tt
	if a.lit && b.lit {
		a = predVal{t: tt.Const(64, a.k), signed: true}
		b = predVal{t: tt.Const(64, b.k), signed: true}
		return a, b, nil
	}
	if a.lit {
		a = predVal{t: tt.Const(b.t.W, a.k), signed: b.signed}
	}
	if b.lit {
		b = predVal{t: tt.Const(a.t.W, b.k), signed: a.signed}
	}
	if a.t.W != b.t.W {
		// widen the narrower one
		if a.t.W < b.t.W {
			if a.signed {
				a.t = tt.Sext(a.t, b.t.W)
			} else {
				a.t = tt.Zext(a.t, b.t.W)
			}
		} else {
			if b.signed {
				b.t = tt.Sext(b.t, a.t.W)
			} else {
				b.t = tt.Zext(b.t, a.t.W)
			}
		}
	}
	return a, b, nil
}

func (p *Path) predEval(e ast.Expr) (predVal, error) {
	tt := p.tt
	switch e := e.(type) {
	case *ast.ParenExpr:
		return p.predEval(e.X)
	case *ast.Ident:
		switch e.Name {
		case "true":
			return predVal{t: tt.Bool(true)}, nil
		case "false":
			return predVal{t: tt.Bool(false)}, nil
		}
		t, ok := p.tags[e.Name]
		if !ok {
			return predVal{}, fmt.Errorf("unknown tag %q", e.Name)
		}
		return predVal{t: t, signed: p.tagSigned[e.Name]}, nil
	case *ast.BasicLit:
		switch e.Kind {
		case token.INT:
			k, err := strconv.ParseUint(e.Value, 0, 64)
			if err != nil {
				return predVal{}, err
			}
			return predVal{lit: true, k: k}, nil
		case token.CHAR:
			r, _, _, err := strconv.UnquoteChar(e.Value[1:len(e.Value)-1], '\'')
			if err != nil {
				return predVal{}, err
			}
			return predVal{lit: true, k: uint64(r)}, nil
		}
		return predVal{}, fmt.Errorf("unsupported literal %s", e.Value)
	case *ast.UnaryExpr:
		x, err := p.predEval(e.X)
		if err != nil {
			return predVal{}, err
		}
		switch e.Op {
		case token.NOT:
			if x.lit || x.t.W != 0 {
				return predVal{}, fmt.Errorf("! on non-bool")
			}
			return predVal{t: tt.Not(x.t)}, nil
		case token.SUB:
			if x.lit {
				return predVal{lit: true, k: -x.k}, nil
			}
			return predVal{t: tt.Neg(x.t), signed: x.signed}, nil
		case token.XOR:
			if x.lit {
				return predVal{lit: true, k: ^x.k}, nil
			}
			return predVal{t: tt.Bnot(x.t), signed: x.signed}, nil
		}
	case *ast.BinaryExpr:
		x, err := p.predEval(e.X)
		if err != nil {
			return predVal{}, err
		}
		y, err := p.predEval(e.Y)
		if err != nil {
			return predVal{}, err
		}
		switch e.Op {
		case token.LAND, token.LOR:
			if x.lit || y.lit || x.t.W != 0 || y.t.W != 0 {
				return predVal{}, fmt.Errorf("&&/|| on non-bool")
			}
			if e.Op == token.LAND {
				return predVal{t: tt.And(x.t, y.t)}, nil
			}
			return predVal{t: tt.Or(x.t, y.t)}, nil
		}
		if !x.lit && !y.lit && x.t.W == 0 && y.t.W == 0 {
			switch e.Op {
			case token.EQL:
				return predVal{t: tt.Eq(x.t, y.t)}, nil
			case token.NEQ:
				return predVal{t: tt.Not(tt.Eq(x.t, y.t))}, nil
			}
		}
		x, y, err = p.coerce(x, y)
		if err != nil {
			return predVal{}, err
		}
		if x.t.W == 0 || y.t.W == 0 {
			return predVal{}, fmt.Errorf("arithmetic on bool")
		}
		signed := x.signed && y.signed
		switch e.Op {
		case token.EQL:
			return predVal{t: tt.Eq(x.t, y.t)}, nil
		case token.NEQ:
			return predVal{t: tt.Not(tt.Eq(x.t, y.t))}, nil
		case token.LSS:
			if signed {
				return predVal{t: tt.Slt(x.t, y.t)}, nil
			}
			return predVal{t: tt.Ult(x.t, y.t)}, nil
		case token.LEQ:
			if signed {
				return predVal{t: tt.Sle(x.t, y.t)}, nil
			}
			return predVal{t: tt.Ule(x.t, y.t)}, nil
		case token.GTR:
			if signed {
				return predVal{t: tt.Slt(y.t, x.t)}, nil
			}
			return predVal{t: tt.Ult(y.t, x.t)}, nil
		case token.GEQ:
			if signed {
				return predVal{t: tt.Sle(y.t, x.t)}, nil
			}
			return predVal{t: tt.Ule(y.t, x.t)}, nil
		case token.ADD:
			return predVal{t: tt.Bin(OpAdd, x.t, y.t), signed: signed}, nil
		case token.SUB:
			return predVal{t: tt.Bin(OpSub, x.t, y.t), signed: signed}, nil
		case token.MUL:
			return predVal{t: tt.Bin(OpMul, x.t, y.t), signed: signed}, nil
		case token.AND:
			return predVal{t: tt.Bin(OpBand, x.t, y.t), signed: signed}, nil
		case token.OR:
			return predVal{t: tt.Bin(OpBor, x.t, y.t), signed: signed}, nil
		case token.XOR:
			return predVal{t: tt.Bin(OpBxor, x.t, y.t), signed: signed}, nil
		case token.SHL:
			return predVal{t: tt.Bin(OpShl, x.t, y.t), signed: signed}, nil
		case token.SHR:
			if signed {
				return predVal{t: tt.Bin(OpAshr, x.t, y.t), signed: signed}, nil
			}
			return predVal{t: tt.Bin(OpLshr, x.t, y.t), signed: signed}, nil
		case token.REM:
			if signed {
				return predVal{t: tt.Bin(OpSrem, x.t, y.t), signed: signed}, nil
			}
			return predVal{t: tt.Bin(OpUrem, x.t, y.t), signed: signed}, nil
		case token.QUO:
			if signed {
				return predVal{t: tt.Bin(OpSdiv, x.t, y.t), signed: signed}, nil
			}
			return predVal{t: tt.Bin(OpUdiv, x.t, y.t), signed: signed}, nil
		}
	}
	return predVal{}, fmt.Errorf("unsupported predicate expression")
}
