package gosym

// A property check: run all harnesses of the property for the tier, replay
// solver models natively, match known findings, write evidence, exit code.

import (
	"encoding/json"
	"fmt"
	"os"
	"os/exec"
	"path/filepath"
	"regexp"
	"sort"
	"strconv"
	"strings"
	"time"
)

type CheckOptions struct {
	Prop      string
	Tier      string // quick | thorough
	Workers   int
	VerifDir  string
	Verbose   bool
	Trace     bool
	Only      string // harness name filter (substring)
	NoReplay  bool
	Seed      int
	SolverLog string
	KeepTmp   bool
}

type replayFile struct {
	Property string            `json:"property"`
	Harness  string            `json:"harness"`
	Package  string            `json:"package"`
	Tier     int               `json:"tier"`
	Expect   string            `json:"expect"`
	Detail   string            `json:"detail,omitempty"`
	Known    string            `json:"known,omitempty"`
	Values   []Nondet          `json:"values"`
	Tags     map[string]string `json:"tags,omitempty"`
}

type replayJob struct {
	path   string
	spec   *HarnessSpec
	viol   *Violation
	sample bool
	status string // CONFIRMED / MISMATCH / not-run
	got    string
	detail string
}

func LoadKnown(path string) ([]KnownFinding, error) {
	data, err := os.ReadFile(path)
	if err != nil {
		if os.IsNotExist(err) {
			return nil, nil
		}
		return nil, err
	}
	var f struct {
		Findings []KnownFinding `json:"findings"`
	}
	if err := json.Unmarshal(data, &f); err != nil {
		return nil, err
	}
	return f.Findings, nil
}

func expectOf(v *Violation) string {
	switch v.ID {
	case "panic", "fatal", "deadlock":
		return v.ID
	}
	return "assert:" + v.ID
}

var replayLineRe = regexp.MustCompile(`^REPLAY (\S+) (\S+) got=(\S+) want=(\S+) detail=(.*)$`)

// runReplays executes the native replay test of one package for the given jobs.
func runReplays(pg *Program, pkgDir string, specs []*HarnessSpec, jobs []*replayJob, replayDir string, verbose bool) error {
	if len(jobs) == 0 {
		return nil
	}
	tmp, err := os.MkdirTemp("", "verif-replay-")
	if err != nil {
		return err
	}
	defer os.RemoveAll(tmp)
	// generated test file
	pkgName := ""
	for _, p := range pg.Pkgs {
		if p.PkgPath == ModulePath+"/"+filepath.ToSlash(pkgDir) {
			pkgName = p.Name
		}
	}
	if pkgName == "" {
		return fmt.Errorf("package name for %s unknown", pkgDir)
	}
	var sb strings.Builder
	// imports needed by mockey patches
	imports := map[string]string{} // package path -> alias
	pkgPath := ModulePath + "/" + filepath.ToSlash(pkgDir)
	mockExpr := func(target string) string {
		// "pkg/path.Func", "(pkg/path.Type).Method", "(*pkg/path.Type).Method"
		ptr, method := false, ""
		t := target
		if strings.HasPrefix(t, "(") {
			i := strings.LastIndex(t, ").")
			method = t[i+2:]
			t = t[1:i]
			if strings.HasPrefix(t, "*") {
				ptr = true
				t = t[1:]
			}
		}
		dot := strings.LastIndex(t, ".")
		pp, name := t[:dot], t[dot+1:]
		q := name
		if pp != pkgPath {
			alias, ok := imports[pp]
			if !ok {
				alias = fmt.Sprintf("mp%d", len(imports))
				imports[pp] = alias
			}
			q = alias + "." + name
		}
		if method == "" {
			return q
		}
		if ptr {
			return "(*" + q + ")." + method
		}
		return q + "." + method
	}
	var body strings.Builder
	seen := map[string]bool{}
	anyMock := false
	for _, s := range specs {
		if s.PkgDir == pkgDir && !seen[s.Name] {
			seen[s.Name] = true
			if len(s.Mocks) == 0 {
				fmt.Fprintf(&body, "\t\t%q: %s,\n", s.Name, s.Name)
				continue
			}
			anyMock = true
			fmt.Fprintf(&body, "\t\t%q: func() {\n", s.Name)
			targets := make([]string, 0, len(s.Mocks))
			for t := range s.Mocks {
				targets = append(targets, t)
			}
			sort.Strings(targets)
			for _, t := range targets {
				fmt.Fprintf(&body, "\t\t\tdefer mockey.Mock(%s).To(%s).Build().UnPatch()\n", mockExpr(t), s.Mocks[t])
			}
			fmt.Fprintf(&body, "\t\t\t%s()\n\t\t},\n", s.Name)
		}
	}
	fmt.Fprintf(&sb, "package %s\n\nimport (\n\t\"testing\"\n\tvs \"%s\"\n", pkgName, VsPkgPath)
	if anyMock {
		sb.WriteString("\tmockey \"github.com/bytedance/mockey\"\n")
	}
	ips := make([]string, 0, len(imports))
	for pp := range imports {
		ips = append(ips, pp)
	}
	sort.Strings(ips)
	for _, pp := range ips {
		fmt.Fprintf(&sb, "\t%s %q\n", imports[pp], pp)
	}
	sb.WriteString(")\n\nfunc TestVerifReplay(t *testing.T) {\n\tvs.RunReplays(t, map[string]func(){\n")
	sb.WriteString(body.String())
	sb.WriteString("\t})\n}\n")
	testFile := filepath.Join(tmp, "zz_verif_replay_test.go")
	if err := os.WriteFile(testFile, []byte(sb.String()), 0o644); err != nil {
		return err
	}
	ov := struct {
		Replace map[string]string `json:"Replace"`
	}{Replace: map[string]string{}}
	for virt := range pg.Overlay {
		rel, _ := filepath.Rel(RepoDir, virt)
		var real string
		if strings.HasPrefix(rel, "zz_verifsym/") {
			real = filepath.Join(pg.HarnessD, "verifsym", filepath.Base(rel))
		} else {
			real = filepath.Join(pg.HarnessD, rel)
		}
		ov.Replace[virt] = real
	}
	ov.Replace[filepath.Join(RepoDir, pkgDir, "zz_verif_replay_test.go")] = testFile
	ovData, _ := json.Marshal(ov)
	ovFile := filepath.Join(tmp, "overlay.json")
	os.WriteFile(ovFile, ovData, 0o644)
	cmd := exec.Command("go", "test", "-vet=off", "-count=1", "-gcflags=all=-l", "-timeout", "180s", "-overlay", ovFile, "-run", "^TestVerifReplay$", "-v", "./"+pkgDir)
	cmd.Dir = RepoDir
	cmd.Env = append(os.Environ(), "GOFLAGS=-mod=mod", "GOPROXY=off", "GOSUMDB=off", "GOTOOLCHAIN=local", "VERIF_REPLAY_DIR="+replayDir)
	out, err := cmd.CombinedOutput()
	if verbose {
		fmt.Fprintf(os.Stderr, "%s\n", out)
	}
	byPath := map[string]*replayJob{}
	for _, j := range jobs {
		byPath[j.path] = j
	}
	n := 0
	for _, line := range strings.Split(string(out), "\n") {
		m := replayLineRe.FindStringSubmatch(strings.TrimSpace(line))
		if m == nil {
			continue
		}
		if j := byPath[m[1]]; j != nil {
			j.status, j.got = m[2], m[3]
			j.detail, _ = strconv.Unquote(m[5])
			n++
		}
	}
	if n == 0 && err != nil {
		tail := string(out)
		if len(tail) > 3000 {
			tail = tail[len(tail)-3000:]
		}
		return fmt.Errorf("native replay run failed: %v\n%s", err, tail)
	}
	return nil
}

// Evidence file (schema: /root/.vp/EVIDENCE.schema.json).
type evidence struct {
	PropertyID  string                 `json:"property_id"`
	Tier        string                 `json:"tier"`
	Seed        int                    `json:"seed"`
	Level       string                 `json:"level"`
	Coverage    map[string]interface{} `json:"coverage"`
	Assumptions []string               `json:"assumptions"`
	WallS       float64                `json:"wall_s"`
	Violations  int                    `json:"violations"`
}

// RunCheck runs the check and returns the process exit code.
func RunCheck(opt CheckOptions) int {
	t0 := time.Now()
	tier := 0
	if opt.Tier == "thorough" {
		tier = 1
	}
	harnessDir := filepath.Join(opt.VerifDir, "harness")
	known, err := LoadKnown(filepath.Join(opt.VerifDir, "known_findings.json"))
	if err != nil {
		fmt.Fprintf(os.Stderr, "known_findings.json: %v\n", err)
		return 2
	}
	pg, err := Load(harnessDir, []string{opt.Prop})
	if err != nil {
		fmt.Fprintf(os.Stderr, "load: %v\n", err)
		return 2
	}
	defer pg.Close()
	if opt.Verbose {
		fmt.Fprintf(os.Stderr, "loaded in %.1fs, %d harnesses\n", pg.LoadTime.Seconds(), len(pg.Harness))
	}
	replayDir := filepath.Join(opt.VerifDir, "replays", opt.Prop)
	os.RemoveAll(replayDir)
	os.MkdirAll(replayDir, 0o755)

	var results []*HarnessResult
	var specsRun []*HarnessSpec
	inconclusive := []string{}
	for _, spec := range pg.Harness {
		if spec.Tier == "thorough" && tier == 0 {
			continue
		}
		if spec.Tier == "quick" && tier == 1 {
			continue
		}
		if opt.Only != "" && !strings.Contains(spec.Name, opt.Only) {
			continue
		}
		budget := 10 * time.Minute
		qt := 10000
		if tier == 1 {
			budget = 60 * time.Minute
			qt = 60000
		}
		cfg := RunConfig{Tier: tier, Workers: opt.Workers, TimeoutMs: qt, Budget: budget, Known: known, Verbose: opt.Verbose, Trace: opt.Trace, SolverLog: opt.SolverLog}
		res, err := pg.RunHarness(spec, cfg)
		if err != nil {
			fmt.Fprintf(os.Stderr, "harness %s: %v\n", spec.Name, err)
			inconclusive = append(inconclusive, spec.Name+": "+err.Error())
			continue
		}
		results = append(results, res)
		specsRun = append(specsRun, spec)
		if opt.Verbose {
			fmt.Fprintf(os.Stderr, "%-50s paths=%d cut=%d panics=%d forks=%d viol=%d known=%d queries=%d solver=%.1fs wall=%.1fs steps=%d\n",
				spec.Name, res.Paths, res.AssumeCut, res.PanicPaths, res.Forks, len(res.Violations), len(res.KnownHit), res.Queries, res.SolverTime.Seconds(), res.Wall.Seconds(), res.Steps)
			for _, k := range sortedKeys(res.Inconclusive) {
				fmt.Fprintf(os.Stderr, "    inconclusive x%d: %s\n", res.Inconclusive[k], k)
			}
			for _, k := range sortedBoolKeys(res.Notes) {
				fmt.Fprintf(os.Stderr, "    note: %s\n", k)
			}
		}
		for _, k := range sortedKeys(res.Inconclusive) {
			inconclusive = append(inconclusive, fmt.Sprintf("%s: %s (x%d)", spec.Name, k, res.Inconclusive[k]))
		}
		if res.Paths == 0 && len(res.Violations) == 0 && len(res.KnownHit) == 0 {
			inconclusive = append(inconclusive, spec.Name+": vacuous (no path completed)")
		}
	}
	if len(results) == 0 {
		fmt.Fprintf(os.Stderr, "no harness ran for %s tier %s\n", opt.Prop, opt.Tier)
		return 2
	}

	// ---- replay files
	var jobs []*replayJob
	addJob := func(spec *HarnessSpec, v *Violation, sample bool, idx int) {
		name := fmt.Sprintf("%s-%03d.json", spec.Name, idx)
		if sample {
			name = fmt.Sprintf("%s-sample-%03d.json", spec.Name, idx)
		}
		path := filepath.Join(replayDir, name)
		rf := replayFile{Property: opt.Prop, Harness: spec.Name, Package: spec.PkgPath, Tier: tier, Values: v.Values, Tags: map[string]string{}}
		if sample {
			rf.Expect = "ok"
		} else {
			rf.Expect = expectOf(v)
			rf.Detail = v.Detail + " @ " + v.Where
			rf.Known = v.Known
		}
		for k, x := range v.Tags {
			rf.Tags[k] = fmt.Sprintf("%d", x)
		}
		if rf.Values == nil {
			rf.Values = []Nondet{}
		}
		data, _ := json.MarshalIndent(rf, "", " ")
		os.WriteFile(path, data, 0o644)
		jobs = append(jobs, &replayJob{path: path, spec: spec, viol: v, sample: sample, status: "not-run"})
	}
	for i, res := range results {
		spec := specsRun[i]
		n := 0
		for _, v := range res.Violations {
			addJob(spec, v, false, n)
			n++
		}
		ids := make([]string, 0, len(res.KnownHit))
		for id := range res.KnownHit {
			ids = append(ids, id)
		}
		sort.Strings(ids)
		for _, id := range ids {
			addJob(spec, res.KnownHit[id], false, n)
			n++
		}
		for k, sm := range res.SampleModels {
			addJob(spec, &Violation{Harness: spec.Name, Values: sm}, true, k)
		}
	}
	replayErr := ""
	if !opt.NoReplay {
		byPkg := map[string][]*replayJob{}
		for _, j := range jobs {
			if j.spec.NoReplay {
				j.status = "engine-only"
				continue
			}
			byPkg[j.spec.PkgDir] = append(byPkg[j.spec.PkgDir], j)
		}
		for pkgDir, js := range byPkg {
			if err := runReplays(pg, pkgDir, pg.Harness, js, replayDir, opt.Verbose); err != nil {
				replayErr = err.Error()
				fmt.Fprintf(os.Stderr, "%v\n", err)
			}
		}
	}

	// ---- verdict
	exit := 0
	nViol := 0
	validated := 0
	var lines []string
	knownPrinted := map[string]bool{}
	for _, j := range jobs {
		if j.status == "CONFIRMED" {
			validated++
		}
		if j.sample {
			if j.status == "MISMATCH" {
				inconclusive = append(inconclusive, fmt.Sprintf("%s: sample model did not replay natively (got %s: %s)", j.spec.Name, j.got, j.detail))
			}
			continue
		}
		confirmed := j.status == "CONFIRMED" || (opt.NoReplay || j.spec.NoReplay)
		if j.viol.Known != "" {
			if confirmed && !knownPrinted[j.viol.Known] {
				knownPrinted[j.viol.Known] = true
				what := j.viol.Known
				for _, k := range known {
					if k.ID == j.viol.Known {
						what = k.ID + ": " + k.What
					}
				}
				lines = append(lines, fmt.Sprintf("KNOWN-FINDING: property=%s %s (witness %s)", opt.Prop, what, j.path))
			} else if !confirmed {
				inconclusive = append(inconclusive, fmt.Sprintf("%s: witness of known finding %s did not replay (%s got=%s %s)", j.spec.Name, j.viol.Known, j.status, j.got, j.detail))
			}
			continue
		}
		if confirmed && strings.Contains(j.viol.ID, "/inv-") {
			// A representation invariant of an inductive (STEP) harness is not the
			// property: if only the invariant breaks, the harness no longer fits the
			// implementation and says nothing (the BMC twin decides the property).
			inconclusive = append(inconclusive, fmt.Sprintf("%s: representation invariant %s is no longer preserved by the code (replay %s); the inductive harness does not apply to this implementation", j.spec.Name, j.viol.ID, j.path))
			continue
		}
		if confirmed {
			nViol++
			exit = 1
			lines = append(lines, fmt.Sprintf("VIOLATION property=%s replay=%s", opt.Prop, j.path))
			lines = append(lines, fmt.Sprintf("  harness=%s id=%s %s at %s", j.spec.Name, j.viol.ID, j.viol.Detail, j.viol.Where))
			if opt.Verbose || true {
				var vs []string
				for _, nd := range j.viol.Values {
					vs = append(vs, fmt.Sprintf("%s=%s", nd.Name, nd.V))
				}
				if len(vs) > 24 {
					vs = append(vs[:24], "…")
				}
				lines = append(lines, "  model: "+strings.Join(vs, " "))
				if j.detail != "" {
					lines = append(lines, "  native: "+j.detail)
				}
			}
		} else {
			inconclusive = append(inconclusive, fmt.Sprintf("%s: model for %s did not reproduce natively (%s got=%s %s) file=%s", j.spec.Name, j.viol.ID, j.status, j.got, j.detail, j.path))
		}
	}
	if replayErr != "" {
		inconclusive = append(inconclusive, "replay: "+firstLine(replayErr))
	}
	for _, l := range lines {
		fmt.Println(l)
	}
	if exit == 0 && len(inconclusive) > 0 {
		exit = 2
	}
	for _, s := range inconclusive {
		fmt.Printf("INCONCLUSIVE property=%s %s\n", opt.Prop, s)
	}

	// ---- evidence
	ev := evidence{PropertyID: opt.Prop, Tier: opt.Tier, Seed: opt.Seed, Level: "model_checking", WallS: time.Since(t0).Seconds(), Violations: nViol}
	states, trans, queries := 0, 0, 0
	var solverS float64
	funcs := map[string]bool{}
	var harnessSumm []map[string]interface{}
	var samples []interface{}
	notes := map[string]bool{}
	covers := map[string]int{}
	asserts := map[string]int{}
	for i, res := range results {
		spec := specsRun[i]
		states += res.Paths + res.AssumeCut + res.PanicPaths
		trans += res.Forks
		queries += res.Queries
		solverS += res.SolverTime.Seconds()
		for f := range res.Funcs {
			funcs[f] = true
		}
		for n := range res.Notes {
			notes[n] = true
		}
		for c, k := range res.Covers {
			covers[c] += k
		}
		for c, k := range res.Asserts {
			asserts[c] += k
		}
		harnessSumm = append(harnessSumm, map[string]interface{}{
			"harness": spec.Name, "bounds": spec.Doc, "paths_completed": res.Paths, "paths_cut_by_assume": res.AssumeCut,
			"paths_ending_in_panic": res.PanicPaths, "forks": res.Forks, "solver_queries": res.Queries,
			"sat": res.Sat, "unsat": res.Unsat, "z3_timeouts_retried_on_cvc5": res.Fallbacks, "decided_unsat_by_cvc5": res.FallbackUnsat, "solver_s": round3(res.SolverTime.Seconds()),
			"wall_s": round3(res.Wall.Seconds()), "ssa_instructions": res.Steps, "sched": spec.Sched,
			"stubs": spec.Stubs,
		})
		for k, sm := range res.SampleModels {
			if k >= 2 {
				break
			}
			m := map[string]string{}
			for _, nd := range sm {
				m[nd.Name] = nd.V
			}
			samples = append(samples, map[string]interface{}{"harness": spec.Name, "path_model": m})
		}
	}
	if len(samples) == 0 {
		samples = append(samples, map[string]interface{}{"note": "harnesses of this run take no nondeterministic input on completed paths"})
	}
	if states < 1 {
		states = 1
	}
	if trans < 1 {
		trans = 1
	}
	ev.Coverage = map[string]interface{}{
		"states":                        states,
		"transitions":                   trans,
		"traces_validated_against_impl": validated,
		"samples":                       samples,
		"explanation":                   "bounded symbolic execution of the real Go code (go/ssa) with z3 deciding every branch and assertion; states = explored paths, transitions = forks; traces_validated = solver models re-run natively against the real build",
		"harnesses":                     harnessSumm,
		"functions_encoded":             sortedBoolKeys(funcs),
		"queries":                       queries,
		"solver_s":                      round3(solverS),
		"solver":                        "z3 4.8.12 (-in, incremental push/pop); queries on which z3 times out are re-decided by cvc5 1.0 --solve-bv-as-int=sum on the same SMT-LIB context",
		"covers_reached":                covers,
		"assertions_checked":            asserts,
		"inconclusive":                  inconclusive,
		"known_findings_reproduced":     sortedBoolKeys(knownPrinted),
		"exhaustive":                    len(inconclusive) == 0,
	}
	ev.Assumptions = append([]string{
		"verdicts hold only within the bounds listed per harness (coverage.harnesses[].bounds)",
		"engine: package initialisers run concretely once per worker; environment functions are stubs listed in DESIGN.md section 2.6",
	}, sortedBoolKeys(notes)...)
	evDir := filepath.Join(opt.VerifDir, "evidence")
	os.MkdirAll(evDir, 0o755)
	data, _ := json.MarshalIndent(ev, "", " ")
	os.WriteFile(filepath.Join(evDir, opt.Prop+".json"), data, 0o644)
	fmt.Printf("RESULT property=%s tier=%s exit=%d paths=%d forks=%d queries=%d solver_s=%.1f wall_s=%.1f violations=%d known=%d inconclusive=%d\n",
		opt.Prop, opt.Tier, exit, states, trans, queries, solverS, time.Since(t0).Seconds(), nViol, len(knownPrinted), len(inconclusive))
	return exit
}

func round3(f float64) float64 { return float64(int(f*1000)) / 1000 }

func firstLine(s string) string {
	if i := strings.IndexByte(s, '\n'); i >= 0 {
		return s[:i]
	}
	return s
}
