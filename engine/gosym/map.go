package gosym

// Insertion-ordered association map used for every Go map in the target
// program.  Iteration order is insertion order (deterministic, which the
// decision-trace re-execution relies on).  Keys may be symbolic: a lookup
// with / against a symbolic key forks on equality with each candidate entry.

import (
	"fmt"
	"go/types"
	"strings"
)

type ckey string // canonical encoding of a composite concrete key

type omap struct {
	keyType types.Type
	keys    []value
	vals    []value
	dead    []bool
	idx     map[interface{}]int // canonical concrete key -> position
	nsym    int                 // live entries whose key is symbolic
	n       int                 // live entries
}

func makeMap(kt types.Type, reserve int64) value {
	return &omap{keyType: kt, idx: make(map[interface{}]int)}
}

// isSymbolic reports whether v contains a symbolic component.
func isSymbolic(v value) bool {
	switch v := v.(type) {
	case *Term, sstr:
		return true
	case structure:
		for _, e := range v {
			if isSymbolic(e) {
				return true
			}
		}
	case array:
		for _, e := range v {
			if isSymbolic(e) {
				return true
			}
		}
	case iface:
		return isSymbolic(v.v)
	}
	return false
}

// canon returns a Go-comparable canonical form of a concrete key.
func canon(v value) interface{} {
	switch v := v.(type) {
	case structure, array, iface, rtype:
		var sb strings.Builder
		encKey(&sb, v)
		return ckey(sb.String())
	default:
		return v
	}
}

func encKey(sb *strings.Builder, v value) {
	switch v := v.(type) {
	case structure:
		sb.WriteString("{")
		for _, e := range v {
			encKey(sb, e)
			sb.WriteString(",")
		}
		sb.WriteString("}")
	case array:
		sb.WriteString("[")
		for _, e := range v {
			encKey(sb, e)
			sb.WriteString(",")
		}
		sb.WriteString("]")
	case iface:
		if v.t == nil {
			sb.WriteString("<nil>")
			return
		}
		fmt.Fprintf(sb, "(%s:", v.t.String())
		encKey(sb, v.v)
		sb.WriteString(")")
	case rtype:
		fmt.Fprintf(sb, "rtype(%s)", v.t.String())
	case string:
		fmt.Fprintf(sb, "%q", v)
	case *value:
		fmt.Fprintf(sb, "%p", v)
	default:
		fmt.Fprintf(sb, "%T(%v)", v, v)
	}
}

func (m *omap) len() int {
	if m == nil {
		return 0
	}
	return m.n
}

// find returns the position of key k or -1.  It may fork (symbolic keys).
func (m *omap) find(in *interpreter, k value) int {
	if m == nil {
		return -1
	}
	ksym := isSymbolic(k)
	if !ksym {
		if pos, ok := m.idx[canon(k)]; ok {
			return pos
		}
		if m.nsym == 0 {
			return -1
		}
	}
	for i, ki := range m.keys {
		if m.dead[i] {
			continue
		}
		if !ksym && !isSymbolic(ki) {
			continue // concrete-concrete mismatch already decided by idx
		}
		c := in.eqValue(m.keyType, k, ki)
		if in.truth(c) {
			return i
		}
	}
	return -1
}

func (m *omap) lookup(in *interpreter, k value) (value, bool) {
	pos := m.find(in, k)
	if pos < 0 {
		return nil, false
	}
	return m.vals[pos], true
}

func (m *omap) insert(in *interpreter, k, v value) {
	pos := m.find(in, k)
	if pos >= 0 {
		old := m.vals[pos]
		m.vals[pos] = v
		in.trailFunc(func() { m.vals[pos] = old })
		return
	}
	m.keys = append(m.keys, k)
	m.vals = append(m.vals, v)
	m.dead = append(m.dead, false)
	p := len(m.keys) - 1
	sym := isSymbolic(k)
	var ck interface{}
	if sym {
		m.nsym++
	} else {
		ck = canon(k)
		m.idx[ck] = p
	}
	m.n++
	in.trailFunc(func() {
		m.keys = m.keys[:p]
		m.vals = m.vals[:p]
		m.dead = m.dead[:p]
		m.n--
		if sym {
			m.nsym--
		} else {
			delete(m.idx, ck)
		}
	})
}

func (m *omap) delete(in *interpreter, k value) {
	pos := m.find(in, k)
	if pos < 0 {
		return
	}
	m.dead[pos] = true
	m.n--
	sym := isSymbolic(m.keys[pos])
	var ck interface{}
	if sym {
		m.nsym--
	} else {
		ck = canon(m.keys[pos])
		delete(m.idx, ck)
	}
	in.trailFunc(func() {
		m.dead[pos] = false
		m.n++
		if sym {
			m.nsym++
		} else {
			m.idx[ck] = pos
		}
	})
}

func (m *omap) clear(in *interpreter) {
	if m == nil {
		return
	}
	for i := range m.keys {
		if !m.dead[i] {
			m.delete(in, m.keys[i])
		}
	}
}

type omapIter struct {
	m   *omap
	i   int
	rev bool // iterate from the newest entry to the oldest (another order Go may choose)
}

func (it *omapIter) next() tuple {
	if it.m != nil {
		for it.i < len(it.m.keys) {
			i := it.i
			it.i++
			if it.rev {
				i = len(it.m.keys) - 1 - i
				if i < 0 {
					break
				}
			}
			if !it.m.dead[i] {
				return tuple{true, it.m.keys[i], it.m.vals[i]}
			}
		}
	}
	return tuple{false, nil, nil}
}
