#!/bin/bash
# usage: save_seed.sh <seed-id> <property> <src-dir> <demo pkg> <demo regex> "<needs>" "<caught-by>"
set -eu
id="$1"; prop="$2"; src="$3"; pkg="$4"; re="$5"; needs="$6"; caught="$7"
d=/verif/seeded/$id; mkdir -p $d
cp $src/patch.diff $d/patch.diff; cp $src/demo_test.go $d/demo_test.go; cp $src/notes.md $d/notes.md 2>/dev/null || true
python3 - "$id" "$prop" "$pkg" "$re" "$needs" "$caught" <<'PY'
import json,sys
id,prop,pkg,re,needs,caught=sys.argv[1:7]
json.dump({"id":id,"breaks_property":prop,"needs_to_manifest":needs,
 "demo":{"file":"demo_test.go","package_dir":pkg,"run":f"go test -vet=off -count=1 -run '{re}' ./{pkg}/"},
 "confirmed":"tools/confirm_seed.sh: demo passes on the unmodified tree, fails with patch.diff applied; go build ./... ok; all 1863 stable baseline tests still pass with the patch",
 "checks_run":f"git -C /repo apply seeded/{id}/patch.diff; ./check {prop} --tier quick; git -C /repo checkout -- .",
 "caught_by":caught},open(f"/verif/seeded/{id}/meta.json","w"),indent=1)
PY
echo saved $d
