#!/bin/bash
# Runs every claimed check's thorough command (evidence is rewritten with tier=thorough: re-run tools/run_all.sh afterwards).
cd /verif
for id in ${@:-$(jq -r '.checks[].property_id' MANIFEST.json)}; do
  start=$(date +%s)
  out=$(timeout 3000 ./check $id --tier thorough 2>&1 | grep "^RESULT\|^VIOLATION\|^INCONCLUSIVE" | head -4)
  echo "$id $(( $(date +%s) - start ))s: $(echo "$out" | tr '\n' ' ' | cut -c1-300)"
done
