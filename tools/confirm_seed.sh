#!/bin/bash
# usage: confirm_seed.sh <seed-dir> <worktree> <demo pkg dir> <demo -run regex>
# Confirms in a scratch worktree that: (1) the patch applies and builds, (2) the stable baseline
# tests still pass with it, (3) the demo fails with the patch and passes without it.
set -u
seed="$1"; wt="$2"; pkg="$3"; re="$4"
export GOFLAGS=-mod=mod GOPROXY=off GOSUMDB=off
cd "$wt" || exit 2
git checkout -q -- . ; git clean -fdq -e parser/goyacc/goyacc
cp "$seed/demo_test.go" "$pkg/zz_demo_test.go"
echo "== demo on unmodified code (must pass)"
go test -vet=off -count=1 -run "$re" "./$pkg/" > /tmp/confirm_clean.log 2>&1; c1=$?
tail -3 /tmp/confirm_clean.log
git apply "$seed/patch.diff" || { echo "PATCH DOES NOT APPLY"; exit 2; }
echo "== build with patch"
go build ./... || { echo "BUILD FAILS"; exit 2; }
echo "== demo with patch (must fail)"
go test -vet=off -count=1 -run "$re" "./$pkg/" > /tmp/confirm_patched.log 2>&1; c2=$?
tail -5 /tmp/confirm_patched.log | cut -c1-200
rm -f "$pkg/zz_demo_test.go"
echo "== baseline suite with patch"
go test -json -vet=off -count=1 -timeout 25m ./... > /tmp/confirm_suite.json 2>/dev/null
python3 - <<'PY'
import json
base=json.load(open('/root/.vp/BASELINE.json'))
stable=set(base['stable_pass'])
passed=set()
for line in open('/tmp/confirm_suite.json'):
    try: e=json.loads(line)
    except: continue
    if e.get('Action')=='pass' and e.get('Test'):
        passed.add(e['Package']+'::'+e['Test'])
missing=sorted(stable-passed)
print('stable tests:',len(stable),'passed now:',len(stable&passed),'missing:',len(missing))
for m in missing[:15]: print('  MISSING',m)
open('/tmp/confirm_missing.txt','w').write('\n'.join(missing))
PY
git checkout -q -- .
echo "RESULT clean_demo_exit=$c1 patched_demo_exit=$c2 missing=$(wc -l < /tmp/confirm_missing.txt)"
