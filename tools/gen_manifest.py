#!/usr/bin/env python3
"""Regenerates /verif/MANIFEST.json from the table below (claimed checks and
not-applicable reasons).  Run after adding or removing a check."""
import json

PROPS = [json.loads(l) for l in open('/verif/properties.jsonl')]

# property id -> (level text, level note)
CLAIMED = {
    'C12': ("every length-encoded integer (all uint64) and string (payload <= 12 bytes) round-trips and every decoder stays inside an arbitrary buffer (<= 12 bytes, any offset, any size argument); decided per path by z3 over the real mysql/encoding.go",
            "buffers and payloads longer than 12 bytes are outside the bound; lengths 251/65536 boundaries are covered through the integer codec, not through long payloads"),
    'C25': ("window lemma for every uint32 counter value and every weight vector (<=4 replicas, weights 1..4) plus health/zero-weight/locality rules of GetSlaveConn for every up/down, pool-failure and datacenter assignment within bounds",
            "queue order restricted to sorted+rotation (the real shuffle is random); concurrent selections not interleaved (the counter update is one atomic CAS); rand.Shuffle modelled as identity"),
    'C26': ("inductive step of SlidingWindow.Trigger from an arbitrary invariant state (W<=8, any base second, symbolic counts and threshold) plus a bounded run from the initial state and the disabled case",
            "seconds up to 2^36*W; now-lastNow enumerated in 0..2W+1 (larger gaps take the same full-reset branch); TryFuse's error classification is checked under C27/C28 harnesses when built"),
}

CLAIMED['C35'] = ("allow-list decision of parseAllowIps + IPInfo.Match + Namespace.IsClientIPAllowed equals a 128-bit prefix-match reference for <=3 entries (IPv4/IPv6 host or CIDR, symbolic address bytes and prefix length) and every 4- or 16-byte client address",
    "entry text parsing by net.ParseCIDR/ParseIP is a contract stub (well-formed text only); net.IP.Equal/To4/IPNet.Contains/CIDRMask replaced by non-forking equivalents under the engine (native replays use the real ones); IPv4-mapped IPv6 entry texts excluded")
CLAIMED['C37'] = ("every sequence of k<=5 add/refresh/remove/tick operations on a real TimeWheel (N<=4 buckets, 2 keys, timeouts 1, N, N+1, 2N, 3N+1 ticks) fires each registration once, at tick j+d or j+d+1 after its latest activity, and never after removal",
    "the wheel is driven directly (add/remove/handleTick) in the order its loop calls them; the pipeline channel, time.Sleep loop and tick durations other than 1s are outside the bound")

CLAIMED['C09'] = ("range rule: every int64 key against 1..6 tables with a symbolic rows-per-table limit is placed in exactly its half-open interval or rejected, numeric string keys likewise; calendar rules: the three spellings of the same instant (boundary-rich date list x every second of the day) give the same period index; arbitrary string keys <= 11 bytes never panic",
    "calendar dates come from a boundary list (first/last day of every month of 8 (quick) / 18 (thorough) years), not every day; proxy time zone fixed to UTC; Parse{Year,Month,Day}Range are not covered yet; acceptance of malformed date strings is recorded as known findings C09-*")

CLAIMED['C29'] = ("after a reload of one namespace, a deletion or a clone of the user manager, the (user,password) pairs that authenticate and the namespace each binds to are exactly the configured ones, for 2 namespaces x 1..2 users with symbolic names/passwords over an alphabet containing ':' and '*', probed with every configured pair and one arbitrary pair; credential keys are injective for arbitrary strings <= 2 bytes",
    "one operation from a freshly built manager (not arbitrary histories); names 1 byte, passwords <= 2 bytes; password *verification* (scrambles) is C30's subject")

CLAIMED['C34'] = ("inductive step of MySQLSequence.NextSeq from an arbitrary cached block with an arbitrary block-fetch reply (well-formed with symbolic digits, one field, non-numeric, zero/negative increment, missing row, empty result, execute/pool error): a value is issued only from a granted block and lies inside it, a failed fetch leaves no phantom block; plus every interleaving of k<=6 requests of 2 proxies over one table model with a fault on any fetch: no value twice, increasing per proxy",
    "the sequence table is a model (current += increment; reply 'current,increment'); replies are 2-digit current / 1-2 digit increment in the step harness; the mutex is exercised single-threaded (the proxy serialises NextSeq under one lock); the value limit (maxLimit) is off")

CLAIMED['C08'] = ("mycat_mod (every int64, counts 1..16), mycat_long (every int64, 6 layouts), mycat_string (keys of <=3 symbolic code points of any plane, all hashSlice forms with bounds -3..3) and the mycat_murmur hash function (every int32 seed, <=3 code points) equal independent transcriptions of Mycat's Java algorithms (BigInteger abs/mod, UTF-16 String.length/charAt, Guava murmur3_32 hashUnencodedChars)",
    "the Mycat side is a transcription written for this check (validated on the vectors of shard_mycat_test.go by the repo's own tests), not Mycat itself; the murmur consistent-hash ring lookup (treemap ceiling over the virtual buckets) and mycat_padding_mod are not covered")

CLAIMED['C27'] = ("one probe round of a fused replica under the hard and the gradual policy, and one TryFuse event, from an arbitrary state: symbolic clock, cool-down, time since the latest fuse/recovery and remaining penalty; enumerated probe outcome, master status, replication row: the replica is restored only by a successful probe after the cool-down (hard) / with no penalty left (gradual), the cool-down counts from the latest fuse, the penalty grows iff the fuse came within 2 ping periods of the last recovery",
    "time.Now is a harness clock (engine stub, mockey natively); pools and connections are fakes; one event from an arbitrary state (inductive), not event histories; failed-recovery count 3..16; the breaker window itself is C26")
CLAIMED['C28'] = ("one probe round of a replica without strategy from an arbitrary state (symbolic clock, time since last successful probe, down-after period, lag and limit; enumerated probe outcome, master status, thread states, row/no row/no privilege): the resulting status equals the reference table of the property; the health probe and the down-after test shared with the master round are checked separately",
    "the master's own round lives inside checkBackendMasterStatus's ticker loop and is covered only through the shared steps (GetPooledConnectWithHealthCheck, ShouldDownAfterNoAlive); health SQL empty (ping + select 1 path); known finding C28-replica-up-without-probe-when-master-down")

CLAIMED['C14'] = ("CalcParams' count, offsets and accept/reject decision equal a MySQL lexical reference (strings with backslash escapes and doubled quotes, quoted identifiers, the three comment forms) on statements 'select I1,I2 T' whose items are ?, 'S', \"S\", `S`, 1/*S*/ with a 2-byte symbolic piece S over the characters that matter to a scanner, and comment tails",
    "template statements only (free text through the yacc parser is out of reach); natively every replay also cross-checks the reference against the real parser's ParamMarkerExpr count when the text parses; the divergences for escaped quotes, quoted identifiers and comments are known findings C14-calcparams-not-a-lexer")

CLAIMED['C21'] = ("checkSQLAllowed for a read-only user (with and without read/write splitting) rejects exactly the write vocabulary (insert, replace, update, delete, create, alter, drop, truncate, rename, load) and admits the read vocabulary, for texts lead+keyword+separator+rest with the case of every keyword letter symbolic, the separator any ASCII whitespace byte and leads from whitespace / block comment / line comment / hash comment / parenthesis",
    "the direct-query gate only (multi-statement pieces and prepared execution reach the same checkSQLAllowed through doQuery/handleQuery, which is not re-proved here); '/*! ... */' executable comments, CALL/GRANT and statements beyond the listed vocabulary are outside the bound; strings.ToLower replaced by a non-forking ASCII equivalent under the engine")

CLAIMED['C22'] = ("the replica decision (Preview + Tokenize + checkExecuteFromSlave) for a read/write-split user outside a transaction sends a statement to a replica only if it is a plain SELECT/SHOW: 17 statement forms (locking reads with NOWAIT/SKIP LOCKED, master hint leading/inline/trailing, read_only probes, DML) x symbolic letter case of the deciding keywords x leads x trails (whitespace byte, ';', block comment, line comment)",
    "decision function only (the connection actually taken from Slice.GetConn and the in-transaction branch are part of C18's subject); CheckSelectLock on; strings.ToLower/EqualFold replaced by non-forking ASCII equivalents under the engine; misrouting after a trailing ';' or comment is recorded as known findings C22-*")

CLAIMED['C30'] = ("the real handleHandshakeResponse (plugin/length dispatch, UserManager.Check*, mysql.CalcPassword / CheckHashPassword / CalcCachingSha2Password) accepts a response iff it is the native or caching-sha2 proof of a stored password, for a symbolic 20-byte salt, stored passwords in clear (1..2 symbolic bytes) or as '*' hash of a symbolic 20-byte value, responses of length 0/19/20/21/32 and the three plugin names",
    "SHA-1 and SHA-256 are uninterpreted, collision-free functions (Ackermann constraints written in the harness; natively patched with mockey so that replays run under the same model): the hash implementations and collision resistance are outside the claim; hex decoding of the stored hash is a non-forking stub under the engine; known findings C30-hash-*")

CLAIMED['C33'] = ("decrypt(key, encrypt(key, d)) == d for every plain text of 0..33 bytes and key lengths 16/24/32 (other lengths rejected) through the real pkcs5 padding, ECB block loops and error paths; decrypting arbitrary data (0..33 bytes) fails or yields data without panicking; FullDirPath / FullNamespacePath of every path <= 6 bytes over {/ . a \\ * NUL} stay inside the storage directory or are rejected",
    "the AES block is a symbolic XOR bijection (mockey natively) and base64 an opaque bijection (engine stub): AES, base64, JSON encoding, etcd and file I/O are outside the claim, so 'equal to the submitted configuration' is decided for the encrypted credential fields only")

CLAIMED['C36'] = ("metamorphic check of the real GetFingerprint: every variant of a base statement that changes only a number literal (1..3 symbolic digits), a string literal (0..2 symbolic bytes, either quote, escaped quotes), one gap's whitespace (1..2 symbolic whitespace bytes), the letter case of a keyword, or adds one block comment (0..2 symbolic bytes, spaced or glued) has the base fingerprint; IN lists of 1..4 values collapse to the 1-value fingerprint; mutants (other table, column, operator, extra column) get another fingerprint",
    "one base statement shape plus IN lists (not the 12 shapes of the design); ASCII; md5 of the fingerprint is not modelled (equal fingerprints give equal md5; different fingerprints are assumed not to collide); '/*!' and '/*+' are not comments; known finding C36-comment-glued-to-word")

CLAIMED['C31'] = ("every sequence of k<=4 prepare / commit / delete operations over two namespaces on the real Manager (ReloadNamespacePrepare/Commit, DeleteNamespace, GetNamespace, user managers): after every operation the live configuration version and the credentials of every namespace equal the specification (last committed, deleted stays deleted)",
    "bounded enumeration of operation sequences by the engine's choice points (the state is discrete: almost no solver queries are involved, which is what the evidence shows); NewNamespace/Close are light fakes (mockey natively); administrators are sequential, the reader-sees-one-generation clause (switchIndex versus the two arrays under concurrency) is not covered; the shared standby generation is known finding C31-shared-standby-generation")

CLAIMED['C17'] = ("the pieces returned by the real SplitStatementToPieces (which runs the real lexer, executed from SSA with symbolic bytes) equal a MySQL lexical reference splitter in number and text, for texts P1;P2[;] whose pieces are plain statements, string / quoted-identifier / comment forms, empty or blank, with a 1..2-byte symbolic insert over {; ' \" ` \\ * / newline a}",
    "template texts only (two pieces, one symbolic insert); keyword/identifier lexing beyond the templates and multi-byte characters are outside the bound; doMultiStmts' stop-at-first-failure loop is not covered; known finding C17-blank-before-single-semicolon")

CLAIMED['C16'] = ("every sequence of k<=4 statement commands (well-formed execute with symbolic values / NULLs with and without the types block, truncated execute, send_long_data on either statement, reset, commands on an unknown id) on a session with two prepared statements, with a nondeterministic backend answer: each executed text is built from exactly this execution's values and the long data sent since the last execution, no bound value survives an execution (successful, failed or malformed), statements do not see each other's values, unknown ids fail",
    "handleQuery is a recorder (mockey natively); string parameters of one symbolic letter (escaping is C15's subject); prepare/close commands themselves and more than two statements are outside the bound")

CLAIMED['C15'] = ("for 'select ?' with one string/blob parameter of 0..3 arbitrary symbolic bytes (inline in four string types, or as long data) the text produced by the real bindStmtArgs + GetRewriteSQL + escapeSQL is the template with exactly one literal that a MySQL literal scanner decodes to the bound bytes, under the default sql_mode and under NO_BACKSLASH_ESCAPES; integer parameters of every width/sign at boundary values and NULL render as the bound number",
    "integers are boundary values enumerated concretely (formatting of symbolic integers is not modelled by the engine), dates/times/floats/decimals are not covered; one placeholder; the packet decoding of handleStmtExecute is C16/C38's subject; known findings C15-no-backslash-escapes")

CLAIMED['C13'] = ("the rows built by the real BuildBinaryResultset/AppendBinaryValue decode, with an independent binary-protocol decoder, to the values given: result sets of 1..2 rows x 1..2 columns over eight column types with every NULL pattern (symbolic integers over the full range of each width, symbolic 0..2-byte strings); and, through the real ParseText first, one integer column of every width/sign (symbolic 1..3-digit texts and the extreme values), one DATE column (every month/day text of four years), one DATETIME/TIMESTAMP column (symbolic hours, fractional seconds, zero dates) and one TIME column (negative and >24h values, symbolic digits)",
    "floats and decimals are not covered (floating point and big.Int arithmetic are outside the encoder); calendar arithmetic of package time runs on concrete month/day values; strings longer than 2 bytes (hence the 2/3/8-byte length prefixes) outside the bound; Session.writeResponse's choice of the binary path is not covered; known finding C13-date-unparseable-becomes-zero-date")

CLAIMED['C10'] = ("every namespace the real Namespace.Verify accepts is loaded by the real NewRouter without error or panic, the loaded rule lists each sub table once in exactly one slice, and the rule's sharding function (any int64 key) names a listed table: one hash/mod/range/global rule with symbolic locations (-2..3 per entry), slice lists, row limit and default slice; two rules with case-varying table / parent names and linked rules; date_year / date_month rules with symbolic range digits and date_day rules from concrete forms; mycat and global rules over enumerated database lists and partition parameters",
    "the rest of the namespace (users, slices, charset) is a fixed valid fixture; lists of at most 3 locations / 2 date ranges / 2 rules; mycat string/murmur/padding sharding functions are not run on keys here (C08); global rules are excluded from the duplicate-database assertion (the stock configuration repeats the logical database); known finding C10-empty-default-slice-accepted")

CLAIMED['C01'] = ("for a condition tree built as an AST over the sharding column id and another column (leaf, NOT(leaf), leaf AND leaf2, leaf OR leaf2; thorough: deeper trees; leaves: six comparison operators in both orientations, [NOT] IN, [NOT] BETWEEN, comparison on the other column) the real handleComparisonExpr + RouteResult.Inter keep the sub table that the rule's own FindTableIndex gives to any row (symbolic int64 key) satisfying the condition: range rule (3 tables, literals symbolic in -5..305), hash and mod rules (4 tables, literals any int64), date_year (thorough: date_month, date_day) rules with enumerated date literals and rows",
    "the AST is built by the harness, not parsed from text (literal nodes carry symbolic values, which the lexer cannot produce); JOIN ... ON conditions, subqueries, linked tables, mycat rules and string keys on numeric rules are not covered; date literals are enumerated (package time parses them); the IN-list rewrite per sub table is not compared")

CLAIMED['C03'] = ("INSERT / REPLACE ... VALUES (1..4 rows) and INSERT ... SET statements parsed by the real parser and planned by the real BuildPlan on range, hash and mod rules: a statement with an unroutable sharding value (signed literal, arithmetic, NULL, function call, key outside the ranges) is rejected; otherwise every row appears in exactly one generated statement, that statement targets the sub table (and slice) the rule's own FindTableIndex gives to the row's key (symbolic int64 literals)",
    "literal nodes get their symbolic values after parsing and (*ValueExpr).Restore is replaced by a token writer (number formatting is not modelled); global tables (C04), date and mycat rules, the global sequence column and ON DUPLICATE KEY (C05) are not covered; the execution of the generated statements is not covered")

CLAIMED['C38'] = ("the real Server.onConn, given a connection whose handshake response is one packet of arbitrary symbolic bytes (15 lengths between 0 and 40, right or wrong sequence id) followed by end of stream, returns without a panic escaping the connection goroutine and closes the connection; the real Session.Run / ExecuteCommand, given one command packet (statement execute / send-long-data / close / reset with symbolic ids and payloads, field list, init db, ping, unknown commands) of 0..12 arbitrary bytes on an authenticated session with a prepared statement, answers or closes without an escaping panic and leaves the session usable or closed",
    "newSession is replaced by a constructor without the *net.TCPConn assertion; SHA-1/SHA-256 uninterpreted; handleQuery (COM_QUERY parsing and planning) is a recorder: arbitrary SQL text is not explored; packets longer than 40 bytes, multi-packet payloads and process-level effects (memory exhaustion, goroutine leaks) are outside the bound; 'hang' is only observed as the instruction budget")

CLAIMED['C24'] = ("the real ResourcePool (capacity 1, maximum 2..3, dynamic scale-out) under concurrent clients: no more connections handed out than the maximum, capacity never above the maximum, no connection with two holders, Put never fails, and idle + in-use = capacity with every slot back once at rest. Two explorations by the engine's scheduler (interleavings and action orders are decisions of the path, explored exhaustively within the bound): every interleaving at the pool's channel / mutex / atomic operations with at most one preemption of three Get-hold-Put clients; and every order of 5 actions {start a client, let a gated factory call succeed or fail, return the held connection, scale-in step, SetCapacity} with factory calls blocked at gates",
    "no SMT query is involved: the inputs of this property are schedules, which the engine enumerates as path decisions; the fine-grained interleaving harness is engine-only (Go cannot force a schedule natively), the gated harness replays natively (other goroutines are given 20 ms to reach their blocking point); the idle-close sweep, Close, timers (their ticks are explicit actions), more than 3 clients and more than one preemption (quick) are outside the bound")

CLAIMED['C05'] = ("UPDATE / DELETE statements parsed by the real parser, given a WHERE tree from the C01 grammar with symbolic literals and planned by the real BuildPlan on a range rule: every generated statement targets a sub table, no sub table gets the statement twice, the table holding any row (symbolic key) that satisfies the condition gets the statement, and the real MergeExecResult reports the sum of the (symbolic) per-shard affected-row counts; 21 UPDATE / INSERT ... ON DUPLICATE KEY UPDATE texts assigning (or not) the sharding column in qualified, aliased, quoted and upper-case spellings are rejected (accepted)",
    "the per-table execution against stored rows is not modelled (the proxy sends the unchanged condition to each routed table, so 'exactly the matching rows' reduces to routing + once-per-table + sum); hash/mod/date rules are covered for routing by C01 only; LIMIT is excluded by the property; the assignment texts are a fixed list, not symbolic")

CLAIMED['C06'] = ("for 880 statement texts (22 templates x tables sh/lk/gl/un x five spellings of the name x session with/without a current database) the real SessionExecutor.preBuildUnshardPlan never answers 'unsharded' for a statement that the proxy's own full analysis (real parser + plan.Checker over the real router) finds to involve a table with a shard rule",
    "the texts are enumerated by the engine as path decisions, there is no symbolic byte in them (the tokenizer works on Go strings through strings.FieldsFunc / ToLower, which the engine runs on concrete text only), so no SMT query is discharged: within this bound the check is an exhaustive run of the real code over the template language; texts outside the templates (deeper nesting, other keywords, multi-statement texts) are outside the bound")

CLAIMED['C04'] = ("for 16 statements over one or two global tables (INSERT / REPLACE / UPDATE / DELETE / SELECT incl. a locking read, joins, aliases, schema-qualified names) in four global-table layouts (explicit database ranges or lists, implicit database with one or two location entries per slice) the plan built by the real parser + BuildPlan sends a write exactly once to every physical copy (slice, database), a read to exactly one copy, never to anything that is not a copy, and rewrites a schema-qualified name to the copy's database",
    "statements and layouts are enumerated by the engine as path decisions (no symbolic data, no SMT query: the subject is the statement/rule structure); the random choice of the copy for reads is whatever math/rand yields in the run (every value is one copy); execution and result merging are not covered; joins of a global with a sharded table belong to C01/C02")

CLAIMED['C39'] = ("the real DirectConnection.readResult on a scripted backend stream: a text result of n = 0..4 rows (symbolic digits / NULLs) under a row limit of 0 (unlimited) or 1..3 is delivered in full with unchanged values when n <= limit and is an error when n > limit, leaving the connection drained or marked broken; with the 16 MiB - 1 streaming threshold scaled down to 40 bytes inside the proxy's code (engine-only abstraction), a result of 0..6 rows that crosses the threshold is delivered row by row, in order, exactly once, in RowDatas and in Values, over readResult and the continuation reads",
    "unsharded single-connection path only: executeShardSQLInSlice / ExecuteSQLs merging and ClientConn.writeOKResultStream are not covered; the scaled-threshold harness cannot be replayed natively (the real constant is 16 MiB) and assumes the code is parametric in the constant; row sizes of megabytes are outside the bound")

NA_REASON = "check not built yet (work in progress; see DESIGN.md section 3 for the planned harness)"
NA = {}

base_cmd = json.load(open('/root/.vp/BASELINE.json'))['cmd']
checks = []
for p in PROPS:
    pid = p['id']
    if pid in CLAIMED:
        text, note = CLAIMED[pid]
        checks.append({
            "property_id": pid,
            "quick_cmd": f"./check {pid} --tier quick",
            "thorough_cmd": f"./check {pid} --tier thorough",
            "evidence_file": f"/verif/evidence/{pid}.json",
            "replay_cmd_template": f"./check {pid} --tier quick   # rewrites {{path}} and replays every model natively",
            "engine": "gosym",
            "level_claimed": {"category": "model_checking",
                              "text": "bounded symbolic execution of the real Go code (go/ssa) with an SMT solver deciding every branch and assertion: " + text,
                              "design_ref": "DESIGN.md section 3 " + pid},
            "level_note": note + "; bounds per harness are printed in the evidence file; engine stubs/summaries per DESIGN.md 2.6",
            "technique": "SMT-based bounded symbolic execution of go/ssa (gosym: z3 4.8.12, cvc5 int-blasting fallback), counterexamples replayed natively against the real build",
        })
na = [{"property_id": p['id'], "reason": NA.get(p['id'], NA_REASON)} for p in PROPS if p['id'] not in CLAIMED]
m = {
    "version": 1,
    "setup_cmd": "cd /verif/engine && GOFLAGS=-mod=mod GOPROXY=off GOSUMDB=off GOTOOLCHAIN=local CGO_ENABLED=0 go build -o /verif/bin/vcheck ./cmd/vcheck && GOFLAGS=-mod=mod GOPROXY=off GOSUMDB=off GOTOOLCHAIN=local go test ./gosym/ -count=1",
    "hooks": {"guard": "verif",
              "enable": "no hooks in /repo: harnesses are injected with a go/packages overlay (analysis) and go test -overlay (native replay)",
              "baseline_off_cmd": base_cmd, "source_commits": [], "add_only": True},
    "engines": [{"name": "gosym", "path": "/verif/engine", "serves_properties": sorted(CLAIMED),
                 "kind_free_text": "symbolic interpreter for go/ssa (fork of x/tools go/ssa/interp) + z3 -in (cvc5 --solve-bv-as-int fallback); harnesses in /verif/harness overlaid into /repo packages"}],
    "checks": checks,
    "not_applicable": na,
    "notes": "exit 0 = held within bounds; exit 1 + VIOLATION line = natively reproduced counterexample; exit 2 + INCONCLUSIVE lines = solver unknown / unsupported construct / vacuous harness (never a pass). Repairs of genuine defects are 'fix:' commits in /repo listed in known_findings.json.",
}
json.dump(m, open('/verif/MANIFEST.json', 'w'), indent=1)
print("claimed:", sorted(CLAIMED), "n/a:", len(na))
