#!/bin/bash
# Runs the repository's whole test suite on /repo's working tree and lists stable baseline tests that no longer pass.
export GOFLAGS=-mod=mod GOPROXY=off GOSUMDB=off
out=${1:-/tmp/baseline_suite.json}
cd /repo && go test -json -vet=off -count=1 -timeout 25m ./... > "$out" 2>/dev/null
python3 - "$out" <<'PY'
import json,sys
base=json.load(open('/root/.vp/BASELINE.json'))
stable=set(base['stable_pass'])
passed=set()
for line in open(sys.argv[1]):
    try: e=json.loads(line)
    except: continue
    if e.get('Action')=='pass' and e.get('Test'):
        passed.add(e['Package']+'::'+e['Test'])
missing=sorted(stable-passed)
print('stable tests:',len(stable),'passed now:',len(stable&passed),'missing:',len(missing))
for m in missing[:30]: print('  MISSING',m)
PY
