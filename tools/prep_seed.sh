#!/bin/bash
# usage: prep_seed.sh <property-id> [suffix]   -> creates /tmp/wt/<id><suf> worktree of /repo HEAD and /tmp/seed/prompt_<id><suf>.txt
set -eu
id="$1"; suf="${2:-}"
mkdir -p /tmp/wt /tmp/seed/$id$suf
git -C /repo worktree add --detach -f /tmp/wt/$id$suf HEAD >/dev/null 2>&1
python3 - "$id" "$suf" <<'PY'
import json,sys
id,suf=sys.argv[1],sys.argv[2]
for l in open('/verif/properties.jsonl'):
    p=json.loads(l)
    if p['id']==id: break
prop=f"PROPERTY {id}: {p['title']}\n\nStatement: {p['statement']}\n\nQuantified over: {p['quantifier']['text']}\n\nWhy ordinary tests cannot settle it: {p['why_tests_cant']}\n"
t=open('/tmp/seed/prompt_template.txt').read()
t=t.replace('__WT__',f'/tmp/wt/{id}{suf}').replace('__ID__',id).replace('__SUF__',suf).replace('__PROP__',prop)
open(f'/tmp/seed/prompt_{id}{suf}.txt','w').write(t)
PY
echo /tmp/seed/prompt_$id$suf.txt
