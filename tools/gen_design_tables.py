#!/usr/bin/env python3
"""Rewrites the generated tables of DESIGN.md section 7 (between the BEGIN/END GENERATED markers)
from known_findings.json, seeded/*/meta.json and evidence/*.json."""
import json, glob, os, re, subprocess
V='/verif'
kf=json.load(open(f'{V}/known_findings.json'))['findings']
out=[]
out.append('#### 7.3 Genuine defects repaired in /repo (one `fix:` commit each)\n')
out.append('| property | commit | what failed (found by the check named in the assertion id) |')
out.append('|---|---|---|')
def subj(c):
    try: return subprocess.check_output(['git','-C','/repo','log','-1','--format=%s',c],text=True).strip()
    except Exception: return ''
for f in kf:
    if f.get('status')=='fixed':
        out.append(f"| {f['property']} | `{f.get('commit','')}` {subj(f.get('commit',''))} | {f['what'].split(' fixed: property=')[0]} |")
out.append('\n#### 7.4 Known findings (genuine, not repaired; printed as KNOWN-FINDING, exit 0)\n')
out.append('| id | assertion | predicate over the model (tags) | why not repaired: see known_findings.json |')
out.append('|---|---|---|---|')
for f in kf:
    if f.get('status')=='known':
        out.append(f"| {f['id']} | {f['assert']} | `{f.get('when','always')}` | {f['what'][:160].replace('|','/')}… |")
out.append('\n#### 7.5 Seeded changes and the checks that catch them\n')
out.append('| seed | property | what it needs to manifest | caught by |')
out.append('|---|---|---|---|')
for d in sorted(glob.glob(f'{V}/seeded/*/meta.json')):
    m=json.load(open(d))
    out.append(f"| {m['id']} | {m['breaks_property']} | {m['needs_to_manifest'][:200]} | {m['caught_by'][:300]} |")
out.append('\n#### 7.6 What the last quick run on the unchanged tree covered (from evidence/)\n')
out.append('| property | harnesses | paths | solver queries | solver s | wall s | known findings printed |')
out.append('|---|---|---|---|---|---|---|')
for e in sorted(glob.glob(f'{V}/evidence/C*.json')):
    try: ev=json.load(open(e))
    except Exception: continue
    c=ev.get('coverage',{})
    out.append(f"| {ev.get('property_id')} | {len(c.get('harnesses',[]))} | {c.get('states','')} | {c.get('queries','')} | {c.get('solver_s','')} | {ev.get('wall_s','')} | {len(c.get('known_findings_reproduced',[]))} |")
out.append('\n#### 7.8 Per property: what is decided and what is outside (from MANIFEST.json)\n')
out.append('| property | decided within the bound | outside the bound / assumptions |')
out.append('|---|---|---|')
man=json.load(open(f'{V}/MANIFEST.json'))
for c in man['checks']:
    t=c['level_claimed']['text'].split(': ',1)[-1].replace('|','/')
    n=c['level_note'].split('; bounds per harness')[0].replace('|','/')
    out.append(f"| {c['property_id']} | {t} | {n} |")
text='\n'.join(out)+'\n'
p=f'{V}/DESIGN.md'
s=open(p).read()
b,e='<!-- BEGIN GENERATED -->','<!-- END GENERATED -->'
if b in s:
    s=s[:s.index(b)+len(b)]+'\n'+text+s[s.index(e):]
    open(p,'w').write(s)
    print('updated')
else:
    print(text[:2000])
