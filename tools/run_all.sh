#!/bin/bash
# Runs every claimed check's quick command on the current tree (evidence is rewritten).
cd /verif
for id in $(jq -r '.checks[].property_id' MANIFEST.json); do
  out=$(./check $id --tier quick 2>&1 | grep "^RESULT\|^VIOLATION\|^INCONCLUSIVE" | head -5)
  echo "$out" | cut -c1-260
done
